// shim/ext.rs -- hand-written, trusted: external crates other than pnet, and std::io::Error.
pub mod siphasher {
    pub mod sip {
        use vstd::prelude::*;
        /// SipHash-2-4 of `data` under key (k0,k1): uninterpreted.  Its quality as a PRF is assumed,
        /// never proved; contracts only use that it is a *function* of key and transcript.
        pub uninterp spec fn sip24(k0: u64, k1: u64, data: Seq<u8>) -> u64;
        /// native-endian (x86-64: little-endian) byte images, as written by `Hasher::write_uN`: shim::le_bytes
        pub use crate::shim::le_bytes;
        pub struct SipHasher24 { pub k0: u64, pub k1: u64, pub transcript: Ghost<Seq<u8>> }
        impl SipHasher24 {
            #[verifier::external_body]
            pub fn new_with_keys(k0: u64, k1: u64) -> (r: SipHasher24)
                ensures r.k0 == k0, r.k1 == k1, r.transcript@ == Seq::<u8>::empty() { unimplemented!() }
            #[verifier::external_body]
            pub fn write_u16(&mut self, x: u16)
                ensures final(self).k0 == old(self).k0, final(self).k1 == old(self).k1,
                        final(self).transcript@ == old(self).transcript@ + le_bytes(x as nat, 2) { unimplemented!() }
            #[verifier::external_body]
            pub fn write_u32(&mut self, x: u32)
                ensures final(self).k0 == old(self).k0, final(self).k1 == old(self).k1,
                        final(self).transcript@ == old(self).transcript@ + le_bytes(x as nat, 4) { unimplemented!() }
            #[verifier::external_body]
            pub fn write_u128(&mut self, x: u128)
                ensures final(self).k0 == old(self).k0, final(self).k1 == old(self).k1,
                        final(self).transcript@ == old(self).transcript@ + le_bytes(x as nat, 16) { unimplemented!() }
            #[verifier::external_body]
            pub fn finish(&self) -> (r: u64)
                ensures r == sip24(self.k0, self.k1, self.transcript@) { unimplemented!() }
        }
    }
}
pub mod chrono {
    use vstd::prelude::*;
    use crate::shim::*;
    /// chrono::Utc::now().to_rfc2822(): some string (the wall clock), assumed to contain no line feed
    pub struct Utc;
    pub struct DateTime { pub t: u64 }
    pub struct Rfc2822 { pub t: u64 }
    pub uninterp spec fn rfc2822_bytes(t: u64) -> Seq<u8>;
    pub open spec fn no_lf(s: Seq<u8>) -> bool { forall|i: int| 0 <= i < s.len() ==> s[i] != 10u8 }
    #[verifier::external_body]
    pub broadcast proof fn axiom_rfc2822_no_lf(t: u64) ensures #[trigger] no_lf(rfc2822_bytes(t)), rfc2822_bytes(t).len() <= 64 {}
    impl FmtDisp for Rfc2822 { open spec fn disp(&self) -> Seq<u8> { rfc2822_bytes(self.t) } }
    impl Utc { #[verifier::external_body] pub fn now() -> (r: DateTime) { unimplemented!() } }
    impl DateTime { #[verifier::external_body] pub fn to_rfc2822(&self) -> (r: Rfc2822) ensures r.t == self.t { unimplemented!() } }
}
pub mod byteorder {
    use vstd::prelude::*;
    use crate::shim::*;
    use crate::stdshim::be_val;
    pub struct BigEndian;
    /// byteorder::BigEndian::read_uN panic when the slice is shorter than N/8 bytes: that is the precondition
    impl BigEndian {
        #[verifier::external_body] pub fn read_u16(buf: &[u8]) -> (r: u16) requires buf@.len() >= 2 ensures r == be16(buf@, 0) { unimplemented!() }
        #[verifier::external_body] pub fn read_u32(buf: &[u8]) -> (r: u32) requires buf@.len() >= 4 ensures r == be32(buf@, 0) { unimplemented!() }
        #[verifier::external_body] pub fn read_u128(buf: &[u8]) -> (r: u128) requires buf@.len() >= 16 ensures be_bytes16(r) == buf@.subrange(0, 16) { unimplemented!() }
    }
}
pub mod flate2 {
    use vstd::prelude::*;
    /// the zlib stream flate2 produces for `data` at the default level: uninterpreted.  Assumed (never
    /// proved): it inflates to exactly `data`, and it is at most |data| + |data|/8 + 64 bytes long.
    pub uninterp spec fn zlib_of(data: Seq<u8>) -> Seq<u8>;
    #[verifier::external_body]
    pub broadcast proof fn axiom_zlib_len(data: Seq<u8>)
        ensures 0 < (#[trigger] zlib_of(data)).len() <= data.len() + data.len() / 8 + 64 {}
    pub struct Compression { pub level: u32 }
    impl Compression {
        #[verifier::external_body]
        pub fn default() -> (r: Compression) { unimplemented!() }
    }
    pub mod write {
        use vstd::prelude::*;
        use super::{Compression, zlib_of};
        pub struct ZlibEncoder { pub sink: Vec<u8>, pub written: Ghost<Seq<u8>> }
        impl ZlibEncoder {
            #[verifier::external_body]
            pub fn new(w: Vec<u8>, level: Compression) -> (r: ZlibEncoder)
                ensures r.written@ == Seq::<u8>::empty(), r.sink@ == w@ { unimplemented!() }
            /// std::io::Write::write_all on a Vec sink cannot fail
            #[verifier::external_body]
            pub fn write_all(&mut self, buf: &[u8]) -> (r: Result<(), crate::stdshim::io::Error>)
                ensures r.is_ok(), final(self).written@ == old(self).written@ + buf@, final(self).sink@ == old(self).sink@ { unimplemented!() }
            #[verifier::external_body]
            pub fn finish(self) -> (r: Result<Vec<u8>, crate::stdshim::io::Error>)
                ensures r.is_ok(), r.unwrap()@ == self.sink@ + zlib_of(self.written@) { unimplemented!() }
        }
    }
}
pub mod stdshim {
    /// std::io::Error as used by synackcookie::generate (constructed, never inspected)
    pub mod io {
        use vstd::prelude::*;
        #[derive(Debug)]
        pub enum ErrorKind { InvalidInput, Other }
        #[derive(Debug)]
        pub struct Error { pub kind: ErrorKind }
        impl Error {
            pub fn new(kind: ErrorKind, _msg: &str) -> (r: Error) { Error { kind } }
        }
    }
    /// std::time::{SystemTime, Duration} as used by the SMB negotiate replies (ServerTime).  Assumed, never
    /// proved: the wall clock is not before 1970-01-01 (so `duration_since(UNIX_EPOCH)` is Ok) and is
    /// below 2^40 seconds (year ~36800), so the FILETIME arithmetic of smb.rs cannot overflow a u64.
    pub mod time {
        use vstd::prelude::*;
        #[derive(Clone, Copy)]
        pub struct SystemTime { pub t: u64 }
        pub struct Duration { pub s: u64 }
        #[derive(Debug)]
        pub struct SystemTimeError { pub e: u64 }
        impl SystemTime {
            pub const UNIX_EPOCH: SystemTime = SystemTime { t: 0 };
            #[verifier::external_body] pub fn now() -> (r: SystemTime) ensures r.t < 0x100_0000_0000 { unimplemented!() }
            #[verifier::external_body] pub fn duration_since(&self, earlier: SystemTime) -> (r: Result<Duration, SystemTimeError>)
                ensures earlier.t <= self.t ==> r.is_ok() && r.unwrap().s == self.t - earlier.t { unimplemented!() }
        }
        impl Duration { #[verifier::external_body] pub fn as_secs(&self) -> (r: u64) ensures r == self.s { unimplemented!() } }
    }
    use vstd::prelude::*;
    use std::net::{Ipv4Addr, Ipv6Addr};
    use crate::shim::*;
    /// big-endian value of an address: `u32::from(Ipv4Addr)` / `u128::from(Ipv6Addr)` (rule R17)
    pub open spec fn be_val(b: Seq<u8>) -> nat
        decreases b.len()
    {
        if b.len() == 0 { 0 } else { be_val(b.drop_last()) * 256 + b.last() as nat }
    }
    #[verifier::external_body]
    pub fn ip4_to_u32(a: Ipv4Addr) -> (r: u32) ensures r as nat == be_val(ip4_octets(a)) { u32::from(a) }
    #[verifier::external_body]
    pub fn ip6_to_u128(a: Ipv6Addr) -> (r: u128) ensures r as nat == be_val(ip6_octets(a)) { u128::from(a) }
}
