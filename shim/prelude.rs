// shim/prelude.rs -- hand-written, trusted.  Included verbatim at the top of every unit.
//
// (1) log macros (rule R2): same names as the `log` crate; every argument expression is evaluated
//     on every path (verbosity is treated as always enabled), formatting itself is not modelled
//     except through `fmt_arg` obligations for pnet packet types (see shim/pnet.rs).
// (2) byte-sequence vocabulary shared by the pnet axioms and the specs.
// (3) std items that have no vstd specification.

macro_rules! debug { ($fmt:expr $(, $arg:expr)* $(,)?) => { { $( let _ = crate::shim::fmt_arg(&$arg); )* } }; }
macro_rules! info  { ($fmt:expr $(, $arg:expr)* $(,)?) => { { $( let _ = crate::shim::fmt_arg(&$arg); )* } }; }
macro_rules! warn  { ($fmt:expr $(, $arg:expr)* $(,)?) => { { $( let _ = crate::shim::fmt_arg(&$arg); )* } }; }
macro_rules! error { ($fmt:expr $(, $arg:expr)* $(,)?) => { { $( let _ = crate::shim::fmt_arg(&$arg); )* } }; }
macro_rules! trace { ($fmt:expr $(, $arg:expr)* $(,)?) => { { $( let _ = crate::shim::fmt_arg(&$arg); )* } }; }

pub mod log {}

pub mod shim {
    use vstd::prelude::*;
    use std::net::{IpAddr, Ipv4Addr, Ipv6Addr};

    // ---------------------------------------------------------------- std::net types
    #[verifier::external_type_specification] #[verifier::external_body] pub struct ExIpv4Addr(Ipv4Addr);
    #[verifier::external_type_specification] #[verifier::external_body] pub struct ExIpv6Addr(Ipv6Addr);
    #[verifier::external_type_specification] pub struct ExIpAddr(IpAddr);

    // ---------------------------------------------------------------- formatting obligations (R2)
    /// A value that is handed to a log macro.  `fmt_ok` is the condition under which formatting it
    /// cannot panic; it is `true` unless a shim says otherwise.
    pub trait FmtArg {
        spec fn fmt_ok(&self) -> bool;
    }
    #[verifier::external_body]
    pub fn fmt_arg<T: FmtArg + ?Sized>(x: &T)
        requires x.fmt_ok(),
    { }
    impl FmtArg for u8 { open spec fn fmt_ok(&self) -> bool { true } }
    impl FmtArg for u16 { open spec fn fmt_ok(&self) -> bool { true } }
    impl FmtArg for u32 { open spec fn fmt_ok(&self) -> bool { true } }
    impl FmtArg for u64 { open spec fn fmt_ok(&self) -> bool { true } }
    impl FmtArg for usize { open spec fn fmt_ok(&self) -> bool { true } }
    impl FmtArg for i32 { open spec fn fmt_ok(&self) -> bool { true } }
    impl FmtArg for bool { open spec fn fmt_ok(&self) -> bool { true } }
    impl FmtArg for str { open spec fn fmt_ok(&self) -> bool { true } }
    impl FmtArg for String { open spec fn fmt_ok(&self) -> bool { true } }
    impl FmtArg for IpAddr { open spec fn fmt_ok(&self) -> bool { true } }
    impl FmtArg for Ipv4Addr { open spec fn fmt_ok(&self) -> bool { true } }
    impl FmtArg for Ipv6Addr { open spec fn fmt_ok(&self) -> bool { true } }
    impl<T: FmtArg + ?Sized> FmtArg for &T { open spec fn fmt_ok(&self) -> bool { (**self).fmt_ok() } }
    impl<T: FmtArg + ?Sized> FmtArg for &mut T { open spec fn fmt_ok(&self) -> bool { (**self).fmt_ok() } }
    impl<T> FmtArg for [T] { open spec fn fmt_ok(&self) -> bool { true } }
    impl<T, const N: usize> FmtArg for [T; N] { open spec fn fmt_ok(&self) -> bool { true } }
    impl<T> FmtArg for Vec<T> { open spec fn fmt_ok(&self) -> bool { true } }
    impl<T: FmtArg> FmtArg for Option<T> { open spec fn fmt_ok(&self) -> bool { true } }

    // ---------------------------------------------------------------- byte vocabulary
    pub open spec fn be16(s: Seq<u8>, o: int) -> u16 {
        (s[o] as int * 256 + s[o + 1] as int) as u16
    }
    pub open spec fn be32(s: Seq<u8>, o: int) -> u32 {
        (s[o] as int * 16777216 + s[o + 1] as int * 65536 + s[o + 2] as int * 256 + s[o + 3] as int) as u32
    }
    pub open spec fn set8(s: Seq<u8>, o: int, v: u8) -> Seq<u8> { s.update(o, v) }
    pub open spec fn set16(s: Seq<u8>, o: int, v: u16) -> Seq<u8> {
        s.update(o, (v / 256) as u8).update(o + 1, (v % 256) as u8)
    }
    pub open spec fn set32(s: Seq<u8>, o: int, v: u32) -> Seq<u8> {
        s.update(o, (v / 16777216) as u8).update(o + 1, ((v / 65536) % 256) as u8)
         .update(o + 2, ((v / 256) % 256) as u8).update(o + 3, (v % 256) as u8)
    }
    /// overwrite s[o .. o+b.len()] with b
    pub open spec fn set_bytes(s: Seq<u8>, o: int, b: Seq<u8>) -> Seq<u8> {
        Seq::new(s.len(), |i: int| if o <= i < o + b.len() { b[i - o] } else { s[i] })
    }
    /// big-endian value of the first k bytes of the field at offset a (accumulation of dissector.rs read_u32)
    pub open spec fn be_part(s: Seq<u8>, a: int, k: int) -> int
        decreases k
    {
        if k <= 0 { 0 } else { be_part(s, a, k - 1) * 256 + s[a + k - 1] as int }
    }
    /*PROVED_IN:u_pnet*/ pub proof fn lemma_be_part_push(s: Seq<u8>, b: u8, a: int, k: int)
        requires 0 <= a, a + k <= s.len()
        ensures be_part(s.push(b), a, k) == be_part(s, a, k)
        decreases k
    {
        if k > 0 { lemma_be_part_push(s, b, a, k - 1); }
    }
    /*PROVED_IN:u_pnet*/ pub proof fn lemma_be_part_4(s: Seq<u8>, a: int)
        requires 0 <= a, a + 4 <= s.len()
        ensures be_part(s, a, 4) == be32(s, a) as int
    {
        reveal_with_fuel(be_part, 5);
    }

    /*PROVED_IN:u_pnet*/ pub proof fn lemma_be32_digits(b0: u8, b1: u8, b2: u8, b3: u8, v: u32)
        requires v as int == b0 as int * 16777216 + b1 as int * 65536 + b2 as int * 256 + b3 as int
        ensures (v / 16777216) as u8 == b0, ((v / 65536) % 256) as u8 == b1, ((v / 256) % 256) as u8 == b2, (v % 256) as u8 == b3
    {
        let c0 = b0 as u32; let c1 = b1 as u32; let c2 = b2 as u32; let c3 = b3 as u32;
        assert(v == c0 << 24 | c1 << 16 | c2 << 8 | c3) by(bit_vector)
            requires c0 < 256, c1 < 256, c2 < 256, c3 < 256, v == add(mul(c0, 16777216), add(mul(c1, 65536), add(mul(c2, 256), c3)));
        assert(v / 16777216 == c0 && (v / 65536) % 256 == c1 && (v / 256) % 256 == c2 && v % 256 == c3) by(bit_vector)
            requires c0 < 256, c1 < 256, c2 < 256, c3 < 256, v == c0 << 24 | c1 << 16 | c2 << 8 | c3;
    }
    /// rule R34: masks and shifts by constants equal the divisions / remainders they stand for (instantiated only where a
    /// mask or shift term occurs; inserted at the start of every verified function body)
    /*PROVED_IN:u_pnet*/ pub proof fn bit_facts()
        ensures
            forall|x: u8| #[trigger] (x & 0x7f) == x % 128,
            forall|x: u8| #[trigger] (x & 0x0f) == x % 16,
            forall|x: u8| #[trigger] (x >> 4) == x / 16,
            forall|x: u8| #[trigger] (x & 1) == x % 2,
            forall|x: u16| #[trigger] (x & 0xff) == x % 256,
            forall|x: u16| #[trigger] (x >> 8) == x / 256,
            forall|x: u32| #[trigger] (x & 0xff) == x % 256,
            forall|x: u32| #[trigger] (x & 0xffff) == x % 65536,
            forall|x: u32| #[trigger] (x >> 8) == x / 256,
            forall|x: u32| #[trigger] (x >> 16) == x / 65536,
            forall|x: u32| #[trigger] (x >> 24) == x / 16777216,
            forall|x: u64| #[trigger] (x & 0xFFFFFFFF) == x % 0x1_0000_0000,
            forall|x: usize| #[trigger] (x & 0xFFFFFF) == x % 0x1000000,
            forall|x: usize| #[trigger] (x >> 24) == x / 0x1000000,
            forall|x: u16| #[trigger] (x & 1) == x % 2,
            forall|x: u16| #[trigger] (x & 0x07) == x % 8,
            forall|x: u16| #[trigger] (x & 0x0f) == x % 16,
            forall|x: u16| #[trigger] (x >> 15) == x / 32768,
            forall|x: u16| #[trigger] (x >> 11) == x / 2048,
            forall|x: u16| #[trigger] (x >> 10) == x / 1024,
            forall|x: u16| #[trigger] (x >> 9) == x / 512,
            forall|x: u16| #[trigger] (x >> 4) == x / 16,
            forall|x: u32| #[trigger] (x & 1) == x % 2,
            forall|x: u8| #[trigger] (x & 0x3f) == x % 64,
            forall|x: u8| #[trigger] (x >> 7) == x / 128,
            forall|x: u8| #[trigger] (x & 0x1) == 0 || (x & 0x1) == 0x1,
            forall|x: u8| #[trigger] (x & 0x2) == 0 || (x & 0x2) == 0x2,
            forall|x: u8| #[trigger] (x & 0x4) == 0 || (x & 0x4) == 0x4,
            forall|x: u8| #[trigger] (x & 0x8) == 0 || (x & 0x8) == 0x8,
            forall|x: u8| #[trigger] (x & 0x10) == 0 || (x & 0x10) == 0x10,
            forall|x: u8| #[trigger] (x & 0x20) == 0 || (x & 0x20) == 0x20,
            forall|x: u8| #[trigger] (x & 0x40) == 0 || (x & 0x40) == 0x40,
            forall|x: u8| #[trigger] (x & 0x80) == 0 || (x & 0x80) == 0x80,
            forall|x: u16| #[trigger] (x & 0x1) == 0 || (x & 0x1) == 0x1,
            forall|x: u16| #[trigger] (x & 0x2) == 0 || (x & 0x2) == 0x2,
            forall|x: u16| #[trigger] (x & 0x4) == 0 || (x & 0x4) == 0x4,
            forall|x: u16| #[trigger] (x & 0x8) == 0 || (x & 0x8) == 0x8,
            forall|x: u16| #[trigger] (x & 0x10) == 0 || (x & 0x10) == 0x10,
            forall|x: u16| #[trigger] (x & 0x20) == 0 || (x & 0x20) == 0x20,
            forall|x: u16| #[trigger] (x & 0x40) == 0 || (x & 0x40) == 0x40,
            forall|x: u16| #[trigger] (x & 0x80) == 0 || (x & 0x80) == 0x80,
            forall|x: u16| #[trigger] (x & 0x100) == 0 || (x & 0x100) == 0x100,
            forall|x: u16| #[trigger] (x & 0x200) == 0 || (x & 0x200) == 0x200,
            forall|x: u16| #[trigger] (x & 0x400) == 0 || (x & 0x400) == 0x400,
            forall|x: u16| #[trigger] (x & 0x800) == 0 || (x & 0x800) == 0x800,
            forall|x: u16| #[trigger] (x & 0x1000) == 0 || (x & 0x1000) == 0x1000,
            forall|x: u16| #[trigger] (x & 0x2000) == 0 || (x & 0x2000) == 0x2000,
            forall|x: u16| #[trigger] (x & 0x4000) == 0 || (x & 0x4000) == 0x4000,
            forall|x: u16| #[trigger] (x & 0x8000) == 0 || (x & 0x8000) == 0x8000,
            forall|x: u32| #[trigger] (x & 0x1) == 0 || (x & 0x1) == 0x1,
            forall|x: u32| #[trigger] (x & 0x2) == 0 || (x & 0x2) == 0x2,
            forall|x: u32| #[trigger] (x & 0x4) == 0 || (x & 0x4) == 0x4,
            forall|x: u32| #[trigger] (x & 0x8) == 0 || (x & 0x8) == 0x8,
            forall|x: u32| #[trigger] (x & 0x10) == 0 || (x & 0x10) == 0x10,
            forall|x: u32| #[trigger] (x & 0x20) == 0 || (x & 0x20) == 0x20,
            forall|x: u32| #[trigger] (x & 0x40) == 0 || (x & 0x40) == 0x40,
            forall|x: u32| #[trigger] (x & 0x80) == 0 || (x & 0x80) == 0x80,
            forall|x: u8| (#[trigger] (x & 0x80) == 0x80) == (x >= 128),
            forall|x: usize| #[trigger] (x & 0xffff) == x % 0x10000,
            forall|x: usize| #[trigger] (x & 0xff) == x % 256,
            forall|x: usize| #[trigger] (x >> 8) == x / 256,
            forall|x: usize| #[trigger] (x >> 16) == x / 65536,
            forall|x: u64| #[trigger] (x & 0xffff) == x % 0x10000,
            forall|x: u64| #[trigger] (x & 0xff) == x % 256,
            forall|x: u16| ((#[trigger] (x >> 0)) & 1 == 1) == (x & 0x1 == 0x1),
            (1u16 << 0) == 0x1u16,
            forall|x: u16| ((#[trigger] (x >> 1)) & 1 == 1) == (x & 0x2 == 0x2),
            (1u16 << 1) == 0x2u16,
            forall|x: u16| ((#[trigger] (x >> 2)) & 1 == 1) == (x & 0x4 == 0x4),
            (1u16 << 2) == 0x4u16,
            forall|x: u16| ((#[trigger] (x >> 3)) & 1 == 1) == (x & 0x8 == 0x8),
            (1u16 << 3) == 0x8u16,
            forall|x: u16| ((#[trigger] (x >> 4)) & 1 == 1) == (x & 0x10 == 0x10),
            (1u16 << 4) == 0x10u16,
            forall|x: u16| ((#[trigger] (x >> 5)) & 1 == 1) == (x & 0x20 == 0x20),
            (1u16 << 5) == 0x20u16,
            forall|x: u16| ((#[trigger] (x >> 6)) & 1 == 1) == (x & 0x40 == 0x40),
            (1u16 << 6) == 0x40u16,
            forall|x: u16| ((#[trigger] (x >> 7)) & 1 == 1) == (x & 0x80 == 0x80),
            (1u16 << 7) == 0x80u16,
            forall|x: u16| ((#[trigger] (x >> 8)) & 1 == 1) == (x & 0x100 == 0x100),
            (1u16 << 8) == 0x100u16,
            forall|x: u16| ((#[trigger] (x >> 9)) & 1 == 1) == (x & 0x200 == 0x200),
            (1u16 << 9) == 0x200u16,
            forall|x: u16| ((#[trigger] (x >> 10)) & 1 == 1) == (x & 0x400 == 0x400),
            (1u16 << 10) == 0x400u16,
            forall|x: u16| ((#[trigger] (x >> 11)) & 1 == 1) == (x & 0x800 == 0x800),
            (1u16 << 11) == 0x800u16,
            forall|x: u16| ((#[trigger] (x >> 12)) & 1 == 1) == (x & 0x1000 == 0x1000),
            (1u16 << 12) == 0x1000u16,
            forall|x: u16| ((#[trigger] (x >> 13)) & 1 == 1) == (x & 0x2000 == 0x2000),
            (1u16 << 13) == 0x2000u16,
            forall|x: u16| ((#[trigger] (x >> 14)) & 1 == 1) == (x & 0x4000 == 0x4000),
            (1u16 << 14) == 0x4000u16,
            forall|x: u16| ((#[trigger] (x >> 15)) & 1 == 1) == (x & 0x8000 == 0x8000),
            (1u16 << 15) == 0x8000u16,
            forall|x: u16| ((#[trigger] (x >> 15)) == 1) == (x >= 0x8000),
            (1u8 << 0) == 0x1u8,
            (1u8 << 1) == 0x2u8,
            (1u8 << 2) == 0x4u8,
            (1u8 << 3) == 0x8u8,
            (1u8 << 4) == 0x10u8,
            (1u8 << 5) == 0x20u8,
            (1u8 << 6) == 0x40u8,
            (1u8 << 7) == 0x80u8,
            forall|x: usize| #[trigger] (x as u8) == x % 256,
            forall|x: usize| #[trigger] (x as u16) == x % 65536,
            forall|x: usize| #[trigger] (x as u32) == x % 0x1_0000_0000,
            forall|x: u64| #[trigger] (x as u8) == x % 256,
            forall|x: u64| #[trigger] (x as u16) == x % 65536,
            forall|x: u64| #[trigger] (x as u32) == x % 0x1_0000_0000,
            forall|x: u32| #[trigger] (x as u8) == x % 256,
            forall|x: u32| #[trigger] (x as u16) == x % 65536,
            forall|x: u16| #[trigger] (x as u8) == x % 256,
            (1usize << 24) == 0x1000000usize, (1u32 << 16) == 0x10000u32, (1u32 << 8) == 0x100u32,
    {
        assert(forall|x: usize| #[trigger] (x as u8) == x % 256) by(bit_vector);
        assert(forall|x: usize| #[trigger] (x as u16) == x % 65536) by(bit_vector);
        assert(forall|x: usize| #[trigger] (x as u32) == x % 0x1_0000_0000) by(bit_vector);
        assert(forall|x: u64| #[trigger] (x as u8) == x % 256) by(bit_vector);
        assert(forall|x: u64| #[trigger] (x as u16) == x % 65536) by(bit_vector);
        assert(forall|x: u64| #[trigger] (x as u32) == x % 0x1_0000_0000) by(bit_vector);
        assert(forall|x: u32| #[trigger] (x as u8) == x % 256) by(bit_vector);
        assert(forall|x: u32| #[trigger] (x as u16) == x % 65536) by(bit_vector);
        assert(forall|x: u16| #[trigger] (x as u8) == x % 256) by(bit_vector);
        assert(forall|x: usize| #[trigger] (x & 0xffff) == x % 0x10000) by(bit_vector);
        assert(forall|x: usize| #[trigger] (x & 0xff) == x % 256) by(bit_vector);
        assert(forall|x: usize| #[trigger] (x >> 8) == x / 256) by(bit_vector);
        assert(forall|x: usize| #[trigger] (x >> 16) == x / 65536) by(bit_vector);
        assert(forall|x: u64| #[trigger] (x & 0xffff) == x % 0x10000) by(bit_vector);
        assert(forall|x: u64| #[trigger] (x & 0xff) == x % 256) by(bit_vector);
        assert(forall|x: u16| ((#[trigger] (x >> 0)) & 1 == 1) == (x & 0x1 == 0x1)) by(bit_vector);
        assert((1u16 << 0) == 0x1u16) by(bit_vector);
        assert(forall|x: u16| ((#[trigger] (x >> 1)) & 1 == 1) == (x & 0x2 == 0x2)) by(bit_vector);
        assert((1u16 << 1) == 0x2u16) by(bit_vector);
        assert(forall|x: u16| ((#[trigger] (x >> 2)) & 1 == 1) == (x & 0x4 == 0x4)) by(bit_vector);
        assert((1u16 << 2) == 0x4u16) by(bit_vector);
        assert(forall|x: u16| ((#[trigger] (x >> 3)) & 1 == 1) == (x & 0x8 == 0x8)) by(bit_vector);
        assert((1u16 << 3) == 0x8u16) by(bit_vector);
        assert(forall|x: u16| ((#[trigger] (x >> 4)) & 1 == 1) == (x & 0x10 == 0x10)) by(bit_vector);
        assert((1u16 << 4) == 0x10u16) by(bit_vector);
        assert(forall|x: u16| ((#[trigger] (x >> 5)) & 1 == 1) == (x & 0x20 == 0x20)) by(bit_vector);
        assert((1u16 << 5) == 0x20u16) by(bit_vector);
        assert(forall|x: u16| ((#[trigger] (x >> 6)) & 1 == 1) == (x & 0x40 == 0x40)) by(bit_vector);
        assert((1u16 << 6) == 0x40u16) by(bit_vector);
        assert(forall|x: u16| ((#[trigger] (x >> 7)) & 1 == 1) == (x & 0x80 == 0x80)) by(bit_vector);
        assert((1u16 << 7) == 0x80u16) by(bit_vector);
        assert(forall|x: u16| ((#[trigger] (x >> 8)) & 1 == 1) == (x & 0x100 == 0x100)) by(bit_vector);
        assert((1u16 << 8) == 0x100u16) by(bit_vector);
        assert(forall|x: u16| ((#[trigger] (x >> 9)) & 1 == 1) == (x & 0x200 == 0x200)) by(bit_vector);
        assert((1u16 << 9) == 0x200u16) by(bit_vector);
        assert(forall|x: u16| ((#[trigger] (x >> 10)) & 1 == 1) == (x & 0x400 == 0x400)) by(bit_vector);
        assert((1u16 << 10) == 0x400u16) by(bit_vector);
        assert(forall|x: u16| ((#[trigger] (x >> 11)) & 1 == 1) == (x & 0x800 == 0x800)) by(bit_vector);
        assert((1u16 << 11) == 0x800u16) by(bit_vector);
        assert(forall|x: u16| ((#[trigger] (x >> 12)) & 1 == 1) == (x & 0x1000 == 0x1000)) by(bit_vector);
        assert((1u16 << 12) == 0x1000u16) by(bit_vector);
        assert(forall|x: u16| ((#[trigger] (x >> 13)) & 1 == 1) == (x & 0x2000 == 0x2000)) by(bit_vector);
        assert((1u16 << 13) == 0x2000u16) by(bit_vector);
        assert(forall|x: u16| ((#[trigger] (x >> 14)) & 1 == 1) == (x & 0x4000 == 0x4000)) by(bit_vector);
        assert((1u16 << 14) == 0x4000u16) by(bit_vector);
        assert(forall|x: u16| ((#[trigger] (x >> 15)) & 1 == 1) == (x & 0x8000 == 0x8000)) by(bit_vector);
        assert((1u16 << 15) == 0x8000u16) by(bit_vector);
        assert(forall|x: u16| ((#[trigger] (x >> 15)) == 1) == (x >= 0x8000)) by(bit_vector);
        assert((1u8 << 0) == 0x1u8) by(bit_vector);
        assert((1u8 << 1) == 0x2u8) by(bit_vector);
        assert((1u8 << 2) == 0x4u8) by(bit_vector);
        assert((1u8 << 3) == 0x8u8) by(bit_vector);
        assert((1u8 << 4) == 0x10u8) by(bit_vector);
        assert((1u8 << 5) == 0x20u8) by(bit_vector);
        assert((1u8 << 6) == 0x40u8) by(bit_vector);
        assert((1u8 << 7) == 0x80u8) by(bit_vector);
        assert(forall|x: u8| #[trigger] (x & 0x1) == 0 || (x & 0x1) == 0x1) by(bit_vector);
        assert(forall|x: u8| #[trigger] (x & 0x2) == 0 || (x & 0x2) == 0x2) by(bit_vector);
        assert(forall|x: u8| #[trigger] (x & 0x4) == 0 || (x & 0x4) == 0x4) by(bit_vector);
        assert(forall|x: u8| #[trigger] (x & 0x8) == 0 || (x & 0x8) == 0x8) by(bit_vector);
        assert(forall|x: u8| #[trigger] (x & 0x10) == 0 || (x & 0x10) == 0x10) by(bit_vector);
        assert(forall|x: u8| #[trigger] (x & 0x20) == 0 || (x & 0x20) == 0x20) by(bit_vector);
        assert(forall|x: u8| #[trigger] (x & 0x40) == 0 || (x & 0x40) == 0x40) by(bit_vector);
        assert(forall|x: u8| #[trigger] (x & 0x80) == 0 || (x & 0x80) == 0x80) by(bit_vector);
        assert(forall|x: u16| #[trigger] (x & 0x1) == 0 || (x & 0x1) == 0x1) by(bit_vector);
        assert(forall|x: u16| #[trigger] (x & 0x2) == 0 || (x & 0x2) == 0x2) by(bit_vector);
        assert(forall|x: u16| #[trigger] (x & 0x4) == 0 || (x & 0x4) == 0x4) by(bit_vector);
        assert(forall|x: u16| #[trigger] (x & 0x8) == 0 || (x & 0x8) == 0x8) by(bit_vector);
        assert(forall|x: u16| #[trigger] (x & 0x10) == 0 || (x & 0x10) == 0x10) by(bit_vector);
        assert(forall|x: u16| #[trigger] (x & 0x20) == 0 || (x & 0x20) == 0x20) by(bit_vector);
        assert(forall|x: u16| #[trigger] (x & 0x40) == 0 || (x & 0x40) == 0x40) by(bit_vector);
        assert(forall|x: u16| #[trigger] (x & 0x80) == 0 || (x & 0x80) == 0x80) by(bit_vector);
        assert(forall|x: u16| #[trigger] (x & 0x100) == 0 || (x & 0x100) == 0x100) by(bit_vector);
        assert(forall|x: u16| #[trigger] (x & 0x200) == 0 || (x & 0x200) == 0x200) by(bit_vector);
        assert(forall|x: u16| #[trigger] (x & 0x400) == 0 || (x & 0x400) == 0x400) by(bit_vector);
        assert(forall|x: u16| #[trigger] (x & 0x800) == 0 || (x & 0x800) == 0x800) by(bit_vector);
        assert(forall|x: u16| #[trigger] (x & 0x1000) == 0 || (x & 0x1000) == 0x1000) by(bit_vector);
        assert(forall|x: u16| #[trigger] (x & 0x2000) == 0 || (x & 0x2000) == 0x2000) by(bit_vector);
        assert(forall|x: u16| #[trigger] (x & 0x4000) == 0 || (x & 0x4000) == 0x4000) by(bit_vector);
        assert(forall|x: u16| #[trigger] (x & 0x8000) == 0 || (x & 0x8000) == 0x8000) by(bit_vector);
        assert(forall|x: u32| #[trigger] (x & 0x1) == 0 || (x & 0x1) == 0x1) by(bit_vector);
        assert(forall|x: u32| #[trigger] (x & 0x2) == 0 || (x & 0x2) == 0x2) by(bit_vector);
        assert(forall|x: u32| #[trigger] (x & 0x4) == 0 || (x & 0x4) == 0x4) by(bit_vector);
        assert(forall|x: u32| #[trigger] (x & 0x8) == 0 || (x & 0x8) == 0x8) by(bit_vector);
        assert(forall|x: u32| #[trigger] (x & 0x10) == 0 || (x & 0x10) == 0x10) by(bit_vector);
        assert(forall|x: u32| #[trigger] (x & 0x20) == 0 || (x & 0x20) == 0x20) by(bit_vector);
        assert(forall|x: u32| #[trigger] (x & 0x40) == 0 || (x & 0x40) == 0x40) by(bit_vector);
        assert(forall|x: u32| #[trigger] (x & 0x80) == 0 || (x & 0x80) == 0x80) by(bit_vector);
        assert(forall|x: u8| (#[trigger] (x & 0x80) == 0x80) == (x >= 128)) by(bit_vector);
        assert(forall|x: u16| #[trigger] (x & 1) == x % 2) by(bit_vector);
        assert(forall|x: u16| #[trigger] (x & 0x07) == x % 8) by(bit_vector);
        assert(forall|x: u16| #[trigger] (x & 0x0f) == x % 16) by(bit_vector);
        assert(forall|x: u16| #[trigger] (x >> 15) == x / 32768) by(bit_vector);
        assert(forall|x: u16| #[trigger] (x >> 11) == x / 2048) by(bit_vector);
        assert(forall|x: u16| #[trigger] (x >> 10) == x / 1024) by(bit_vector);
        assert(forall|x: u16| #[trigger] (x >> 9) == x / 512) by(bit_vector);
        assert(forall|x: u16| #[trigger] (x >> 4) == x / 16) by(bit_vector);
        assert(forall|x: u32| #[trigger] (x & 1) == x % 2) by(bit_vector);
        assert(forall|x: u8| #[trigger] (x & 0x3f) == x % 64) by(bit_vector);
        assert(forall|x: u8| #[trigger] (x >> 7) == x / 128) by(bit_vector);
        assert(forall|x: u8| #[trigger] (x & 0x7f) == x % 128) by(bit_vector);
        assert(forall|x: u8| #[trigger] (x & 0x0f) == x % 16) by(bit_vector);
        assert(forall|x: u8| #[trigger] (x >> 4) == x / 16) by(bit_vector);
        assert(forall|x: u8| #[trigger] (x & 1) == x % 2) by(bit_vector);
        assert(forall|x: u16| #[trigger] (x & 0xff) == x % 256) by(bit_vector);
        assert(forall|x: u16| #[trigger] (x >> 8) == x / 256) by(bit_vector);
        assert(forall|x: u32| #[trigger] (x & 0xff) == x % 256) by(bit_vector);
        assert(forall|x: u32| #[trigger] (x & 0xffff) == x % 65536) by(bit_vector);
        assert(forall|x: u32| #[trigger] (x >> 8) == x / 256) by(bit_vector);
        assert(forall|x: u32| #[trigger] (x >> 16) == x / 65536) by(bit_vector);
        assert(forall|x: u32| #[trigger] (x >> 24) == x / 16777216) by(bit_vector);
        assert(forall|x: u64| #[trigger] (x & 0xFFFFFFFF) == x % 0x1_0000_0000) by(bit_vector);
        assert(forall|x: usize| #[trigger] (x & 0xFFFFFF) == x % 0x1000000) by(bit_vector);
        assert(forall|x: usize| #[trigger] (x >> 24) == x / 0x1000000) by(bit_vector);
        assert((1usize << 24) == 0x1000000usize) by(bit_vector);
        assert((1u32 << 16) == 0x10000u32) by(bit_vector);
        assert((1u32 << 8) == 0x100u32) by(bit_vector);
    }
    /*PROVED_IN:u_pnet*/ pub proof fn lemma_be16_digits(b0: u8, b1: u8, v: u16)
        requires v as int == b0 as int * 256 + b1 as int
        ensures (v / 256) as u8 == b0, (v % 256) as u8 == b1
    {
    }
    /*PROVED_IN:u_pnet*/ pub proof fn lemma_u32_split(v: u32)
        ensures (v as int / 16777216) * 16777216 + ((v as int / 65536) % 256) * 65536 + ((v as int / 256) % 256) * 256 + v as int % 256 == v,
                v as int / 16777216 < 256
    {
        let a = v as int / 65536; let b = v as int % 65536;
        assert(v as int == a * 65536 + b);
        assert(a / 256 == v as int / 16777216) by(nonlinear_arith) requires a == v as int / 65536;
        assert(b / 256 == (v as int / 256) % 256) by(nonlinear_arith) requires b == v as int % 65536, v >= 0;
        assert(b % 256 == v as int % 256) by(nonlinear_arith) requires b == v as int % 65536, v >= 0;
    }
    /*PROVED_IN:u_pnet*/ pub proof fn lemma_be32_set32(s: Seq<u8>, o: int, v: u32)
        requires 0 <= o, o + 4 <= s.len()
        ensures be32(set32(s, o, v), o) == v
    {
        lemma_u32_split(v);
        let t = set32(s, o, v);
        assert(t[o] == (v / 16777216) as u8 && t[o + 1] == ((v / 65536) % 256) as u8 && t[o + 2] == ((v / 256) % 256) as u8 && t[o + 3] == (v % 256) as u8);
    }
    /*PROVED_IN:u_pnet*/ pub proof fn lemma_be16_set16(s: Seq<u8>, o: int, v: u16)
        requires 0 <= o, o + 2 <= s.len()
        ensures be16(set16(s, o, v), o) == v
    {
        let t = set16(s, o, v);
        assert(t[o] == (v / 256) as u8 && t[o + 1] == (v % 256) as u8);
    }
    /// little-endian base-256 digits: the first n digits of x
    pub open spec fn le_bytes(x: nat, n: nat) -> Seq<u8>
        decreases n
    {
        if n == 0 { Seq::<u8>::empty() } else { seq![(x % 256) as u8] + le_bytes(x / 256, (n - 1) as nat) }
    }
    /// x / 256^k
    pub open spec fn pdiv(x: nat, k: nat) -> nat
        decreases k
    {
        if k == 0 { x } else { pdiv(x / 256, (k - 1) as nat) }
    }
    /*PROVED_IN:u_pnet*/ pub proof fn lemma_pdiv_step(x: nat, k: nat)
        ensures pdiv(x, k + 1) == pdiv(x, k) / 256
        decreases k
    {
        assert(pdiv(x, k + 1) == pdiv(x / 256, k));
        if k > 0 {
            lemma_pdiv_step(x / 256, (k - 1) as nat);
            assert(pdiv(x, k) == pdiv(x / 256, (k - 1) as nat));
        }
    }
    /*PROVED_IN:u_pnet*/ pub proof fn lemma_le_bytes_snoc(x: nat, k: nat)
        ensures le_bytes(x, k + 1) == le_bytes(x, k).push((pdiv(x, k) % 256) as u8), le_bytes(x, k).len() == k
        decreases k
    {
        if k == 0 {
            assert(le_bytes(x, 1) =~= seq![(x % 256) as u8]);
            assert(le_bytes(x, 0).push((x % 256) as u8) =~= seq![(x % 256) as u8]);
        } else {
            lemma_le_bytes_snoc(x / 256, (k - 1) as nat);
            assert(le_bytes(x, k + 1) =~= seq![(x % 256) as u8] + le_bytes(x / 256, k));
            assert(le_bytes(x, k) =~= seq![(x % 256) as u8] + le_bytes(x / 256, (k - 1) as nat));
            assert(le_bytes(x, k + 1) =~= le_bytes(x, k).push((pdiv(x, k) % 256) as u8));
        }
    }
    /*PROVED_IN:u_pnet*/ pub broadcast proof fn lemma_be16_subrange(s: Seq<u8>, a: int, b: int, o: int)
        requires 0 <= a, 0 <= o, a + o + 2 <= b, b <= s.len()
        ensures #[trigger] be16(s.subrange(a, b), o) == be16(s, a + o)
    { }
    /*PROVED_IN:u_pnet*/ pub broadcast proof fn lemma_be32_subrange(s: Seq<u8>, a: int, b: int, o: int)
        requires 0 <= a, 0 <= o, a + o + 4 <= b, b <= s.len()
        ensures #[trigger] be32(s.subrange(a, b), o) == be32(s, a + o)
    { }
    /*PROVED_IN:u_pnet*/ pub broadcast proof fn lemma_subrange_full<T>(s: Seq<T>)
        ensures #[trigger] s.subrange(0, s.len() as int) == s
    { assert(s.subrange(0, s.len() as int) =~= s); }
    /// std's reflexive `impl<T> From<T> for T` is the identity (trusted); makes u8 -> u8 `try_into()` transparent
    #[verifier::external_body]
    pub broadcast proof fn axiom_from_reflexive_u8()
        ensures #[trigger] <u8 as vstd::std_specs::convert::FromSpec<u8>>::obeys_from_spec(),
            forall|v: u8| #[trigger] <u8 as vstd::std_specs::convert::FromSpec<u8>>::from_spec(v) == v {}
    pub broadcast group group_be_subrange { lemma_be16_subrange, lemma_be32_subrange, lemma_subrange_full, axiom_from_reflexive_u8, axiom_be_bytes16_len, axiom_str_bytes_ascii }
    pub open spec fn zeros(n: nat) -> Seq<u8> { Seq::new(n, |i: int| 0u8) }

    // ---------------------------------------------------------------- addresses
    /// Ipv4Addr / Ipv6Addr are in bijection with 4 / 16 byte sequences (trusted: std layout).
    pub uninterp spec fn ip4_octets(a: Ipv4Addr) -> Seq<u8>;
    pub uninterp spec fn ip4_from(b: Seq<u8>) -> Ipv4Addr;
    pub uninterp spec fn ip6_octets(a: Ipv6Addr) -> Seq<u8>;
    pub uninterp spec fn ip6_from(b: Seq<u8>) -> Ipv6Addr;
    #[verifier::external_body]
    pub broadcast proof fn axiom_ip4_octets(a: Ipv4Addr)
        ensures #[trigger] ip4_octets(a).len() == 4, ip4_from(ip4_octets(a)) == a {}
    #[verifier::external_body]
    pub broadcast proof fn axiom_ip4_from(b: Seq<u8>)
        requires b.len() == 4
        ensures #[trigger] ip4_octets(ip4_from(b)) == b {}
    #[verifier::external_body]
    pub broadcast proof fn axiom_ip6_octets(a: Ipv6Addr)
        ensures #[trigger] ip6_octets(a).len() == 16, ip6_from(ip6_octets(a)) == a {}
    #[verifier::external_body]
    pub broadcast proof fn axiom_ip6_from(b: Seq<u8>)
        requires b.len() == 16
        ensures #[trigger] ip6_octets(ip6_from(b)) == b {}
    pub broadcast group group_ip_axioms { axiom_ip4_octets, axiom_ip4_from, axiom_ip6_octets, axiom_ip6_from, axiom_ipaddr_eq, axiom_ip4addr_eq, axiom_ip6addr_eq }

    pub assume_specification [Ipv4Addr::octets] (a: &Ipv4Addr) -> (r: [u8; 4])
        ensures r@ == ip4_octets(*a);
    pub assume_specification [Ipv6Addr::octets] (a: &Ipv6Addr) -> (r: [u8; 16])
        ensures r@ == ip6_octets(*a);

    /// std `PartialEq` of the address types is structural equality (trusted).
    #[verifier::external_body]
    pub broadcast proof fn axiom_ipaddr_eq()
        ensures #[trigger] <IpAddr as vstd::std_specs::cmp::PartialEqSpec>::obeys_eq_spec(),
            forall|a: IpAddr, b: IpAddr| #[trigger] <IpAddr as vstd::std_specs::cmp::PartialEqSpec>::eq_spec(&a, &b) == (a == b) {}
    #[verifier::external_body]
    pub broadcast proof fn axiom_ip4addr_eq()
        ensures #[trigger] <Ipv4Addr as vstd::std_specs::cmp::PartialEqSpec>::obeys_eq_spec(),
            forall|a: Ipv4Addr, b: Ipv4Addr| #[trigger] <Ipv4Addr as vstd::std_specs::cmp::PartialEqSpec>::eq_spec(&a, &b) == (a == b) {}
    #[verifier::external_body]
    pub broadcast proof fn axiom_ip6addr_eq()
        ensures #[trigger] <Ipv6Addr as vstd::std_specs::cmp::PartialEqSpec>::obeys_eq_spec(),
            forall|a: Ipv6Addr, b: Ipv6Addr| #[trigger] <Ipv6Addr as vstd::std_specs::cmp::PartialEqSpec>::eq_spec(&a, &b) == (a == b) {}
    pub assume_specification [Ipv4Addr::new] (a: u8, b: u8, c: u8, d: u8) -> (r: Ipv4Addr)
        ensures ip4_octets(r) == seq![a, b, c, d];
    pub assume_specification [Ipv6Addr::new] (a: u16, b: u16, c: u16, d: u16, e: u16, f: u16, g: u16, h: u16) -> (r: Ipv6Addr)
        ensures ip6_octets(r) == seq![(a / 256) as u8, (a % 256) as u8, (b / 256) as u8, (b % 256) as u8, (c / 256) as u8, (c % 256) as u8, (d / 256) as u8, (d % 256) as u8,
                                      (e / 256) as u8, (e % 256) as u8, (f / 256) as u8, (f % 256) as u8, (g / 256) as u8, (g % 256) as u8, (h / 256) as u8, (h % 256) as u8];
    pub assume_specification [Ipv6Addr::is_multicast] (a: &Ipv6Addr) -> (r: bool)
        ensures r == (ip6_octets(*a)[0] == 0xff);
    pub assume_specification [Ipv4Addr::is_multicast] (a: &Ipv4Addr) -> (r: bool)
        ensures r == (224 <= ip4_octets(*a)[0] <= 239);
    pub assume_specification [Ipv4Addr::is_broadcast] (a: &Ipv4Addr) -> (r: bool)
        ensures r == (ip4_octets(*a) == seq![255u8, 255u8, 255u8, 255u8]);
    // address predicates the unchanged tree does not call (documented std behaviour), so that an edit using them is decided
    pub assume_specification [Ipv4Addr::is_unspecified] (a: &Ipv4Addr) -> (r: bool)
        ensures r == (ip4_octets(*a) == seq![0u8, 0u8, 0u8, 0u8]);
    pub assume_specification [Ipv4Addr::is_loopback] (a: &Ipv4Addr) -> (r: bool)
        ensures r == (ip4_octets(*a)[0] == 127);
    pub assume_specification [Ipv4Addr::is_private] (a: &Ipv4Addr) -> (r: bool)
        ensures r == (ip4_octets(*a)[0] == 10 || (ip4_octets(*a)[0] == 172 && 16 <= ip4_octets(*a)[1] <= 31) || (ip4_octets(*a)[0] == 192 && ip4_octets(*a)[1] == 168));
    pub assume_specification [Ipv4Addr::is_link_local] (a: &Ipv4Addr) -> (r: bool)
        ensures r == (ip4_octets(*a)[0] == 169 && ip4_octets(*a)[1] == 254);
    pub assume_specification [Ipv6Addr::is_unspecified] (a: &Ipv6Addr) -> (r: bool)
        ensures r == (forall|i: int| 0 <= i < 16 ==> ip6_octets(*a)[i] == 0);
    pub assume_specification [Ipv6Addr::is_loopback] (a: &Ipv6Addr) -> (r: bool)
        ensures r == ((forall|i: int| 0 <= i < 15 ==> ip6_octets(*a)[i] == 0) && ip6_octets(*a)[15] == 1);
    pub assume_specification [IpAddr::is_unspecified] (a: &IpAddr) -> (r: bool)
        ensures r == (match *a { IpAddr::V4(x) => ip4_octets(x) == seq![0u8, 0u8, 0u8, 0u8], IpAddr::V6(x) => forall|i: int| 0 <= i < 16 ==> ip6_octets(x)[i] == 0 });
    pub assume_specification [IpAddr::is_multicast] (a: &IpAddr) -> (r: bool)
        ensures r == (match *a { IpAddr::V4(x) => 224 <= ip4_octets(x)[0] <= 239, IpAddr::V6(x) => ip6_octets(x)[0] == 0xff });
    /// std `Hash`/`Eq` of IpAddr are lawful (trusted).
    #[verifier::external_body]
    pub broadcast proof fn axiom_ipaddr_key_model()
        ensures #[trigger] vstd::std_specs::hash::obeys_key_model::<IpAddr>() {}

    // ---------------------------------------------------------------- std helpers without vstd spec
    pub assume_specification<T: Clone> [<[T]>::to_vec] (s: &[T]) -> (r: Vec<T>)
        ensures r@ == s@;
    pub assume_specification [u8::is_ascii_digit] (b: &u8) -> (r: bool)
        ensures r == (0x30 <= *b <= 0x39);

    // std functions the unchanged tree does not call; specified (documented behaviour) so that an edit which uses
    // them is decided instead of ending "unsupported"
    pub assume_specification [u8::abs_diff] (a: u8, b: u8) -> (r: u8) ensures r == (if a >= b { a - b } else { b - a });
    pub assume_specification [u16::abs_diff] (a: u16, b: u16) -> (r: u16) ensures r == (if a >= b { a - b } else { b - a });
    pub assume_specification [u32::abs_diff] (a: u32, b: u32) -> (r: u32) ensures r == (if a >= b { a - b } else { b - a });
    pub assume_specification [usize::abs_diff] (a: usize, b: usize) -> (r: usize) ensures r == (if a >= b { a - b } else { b - a });
    pub assume_specification [u16::swap_bytes] (a: u16) -> (r: u16) ensures r == (a % 256) * 256 + a / 256;
    pub assume_specification [u32::swap_bytes] (a: u32) -> (r: u32)
        ensures r == (a % 256) * 0x1000000 + ((a / 256) % 256) * 0x10000 + ((a / 0x10000) % 256) * 256 + a / 0x1000000;
    pub assume_specification [u8::is_ascii_uppercase] (b: &u8) -> (r: bool) ensures r == (0x41 <= *b <= 0x5a);
    pub assume_specification [u8::is_ascii_lowercase] (b: &u8) -> (r: bool) ensures r == (0x61 <= *b <= 0x7a);
    pub assume_specification [u8::is_ascii_alphabetic] (b: &u8) -> (r: bool) ensures r == ((0x41 <= *b <= 0x5a) || (0x61 <= *b <= 0x7a));
    pub assume_specification [u8::is_ascii_alphanumeric] (b: &u8) -> (r: bool)
        ensures r == ((0x41 <= *b <= 0x5a) || (0x61 <= *b <= 0x7a) || (0x30 <= *b <= 0x39));
    pub assume_specification [u8::is_ascii_whitespace] (b: &u8) -> (r: bool)
        ensures r == (*b == 0x20 || *b == 0x09 || *b == 0x0a || *b == 0x0c || *b == 0x0d);
    pub assume_specification [u8::is_ascii] (b: &u8) -> (r: bool) ensures r == (*b < 128);
    pub assume_specification [u8::to_ascii_uppercase] (b: &u8) -> (r: u8) ensures r == (if 0x61 <= *b <= 0x7a { (*b - 32) as u8 } else { *b });
    pub assume_specification [u8::to_ascii_lowercase] (b: &u8) -> (r: u8) ensures r == (if 0x41 <= *b <= 0x5a { (*b + 32) as u8 } else { *b });
    pub open spec fn ascii_lower(b: u8) -> u8 { if 0x41 <= b <= 0x5a { (b + 32) as u8 } else { b } }
    pub assume_specification [u8::eq_ignore_ascii_case] (a: &u8, b: &u8) -> (r: bool) ensures r == (ascii_lower(*a) == ascii_lower(*b));
    pub assume_specification [<[u8]>::eq_ignore_ascii_case] (a: &[u8], b: &[u8]) -> (r: bool)
        ensures r == (a@.len() == b@.len() && forall|i: int| 0 <= i < a@.len() ==> ascii_lower(#[trigger] a@[i]) == ascii_lower(b@[i]));
    pub assume_specification<T: Copy> [Option::<&T>::copied] (o: Option<&T>) -> (r: Option<T>)
        ensures r == (match o { Some(x) => Some(*x), None => None });
    pub assume_specification<T> [bool::then_some::<T>] (b: bool, t: T) -> (r: Option<T>) ensures r == (if b { Some(t) } else { None });
    pub assume_specification<T> [core::mem::replace::<T>] (dest: &mut T, src: T) -> (r: T) ensures r == *old(dest), *final(dest) == src;
    pub assume_specification<T> [<[T]>::swap] (s: &mut [T], a: usize, b: usize)
        requires a < old(s)@.len(), b < old(s)@.len()
        ensures final(s)@ == old(s)@.update(a as int, old(s)@[b as int]).update(b as int, old(s)@[a as int]);
    pub assume_specification<T> [<[T]>::reverse] (s: &mut [T]) ensures final(s)@ == old(s)@.reverse();
    pub assume_specification<T: PartialEq> [<[T]>::contains] (s: &[T], x: &T) -> (r: bool)
        ensures <T as vstd::std_specs::cmp::PartialEqSpec>::obeys_eq_spec() ==> r == (exists|i: int| 0 <= i < s@.len() && #[trigger] <T as vstd::std_specs::cmp::PartialEqSpec>::eq_spec(&s@[i], x));

    pub assume_specification<T, const N: usize> [ <Vec<T> as From<[T; N]>>::from ] (a: [T; N]) -> (r: Vec<T>)
        ensures r@ == a@;
    // std::cmp::min / max (documented: min returns the first argument when equal, max the second)
    pub assume_specification<T: core::cmp::Ord> [ core::cmp::min::<T> ] (a: T, b: T) -> (r: T)
        ensures <T as vstd::std_specs::cmp::OrdSpec>::obeys_cmp_spec() ==> r == (if vstd::std_specs::cmp::OrdSpec::cmp_spec(&b, &a) == core::cmp::Ordering::Less { b } else { a });
    pub assume_specification<T: core::cmp::Ord> [ core::cmp::max::<T> ] (a: T, b: T) -> (r: T)
        ensures <T as vstd::std_specs::cmp::OrdSpec>::obeys_cmp_spec() ==> r == (if vstd::std_specs::cmp::OrdSpec::cmp_spec(&b, &a) == core::cmp::Ordering::Less { a } else { b });

    /// rule R33: forces the receiver of an inlined Option combinator to be an Option (identity)
    pub fn opt_id<T>(o: Option<T>) -> (r: Option<T>) ensures r == o { o }
    pub assume_specification [IpAddr::is_ipv4] (a: &IpAddr) -> (r: bool)
        ensures r == (match *a { IpAddr::V4(_) => true, IpAddr::V6(_) => false });
    pub assume_specification [IpAddr::is_ipv6] (a: &IpAddr) -> (r: bool)
        ensures r == (match *a { IpAddr::V4(_) => false, IpAddr::V6(_) => true });
    pub assume_specification<'a, 'b, T: Clone> [ <Vec<T> as From<&'a [T]>>::from ] (s: &'b [T]) -> (r: Vec<T>)
        ensures r@ == s@;
    // std Option/Result combinators without a vstd specification (semantics as documented in std; closures enter
    // through their own requires/ensures, which rule R32 writes for expression closures and Verus checks)
    pub assume_specification<T, F: FnOnce(&T) -> bool>[ Option::<T>::filter::<F> ](o: Option<T>, f: F) -> (r: Option<T>)
        requires o.is_some() ==> f.requires((&o.unwrap(),)),
        ensures
            o.is_none() ==> r.is_none(),
            o.is_some() ==> (r == o && f.ensures((&o.unwrap(),), true)) || (r.is_none() && f.ensures((&o.unwrap(),), false));
    pub assume_specification<T, U, F: FnOnce(T) -> U>[ Option::<T>::map_or::<U, F> ](o: Option<T>, default: U, f: F) -> (r: U)
        requires o.is_some() ==> f.requires((o.unwrap(),)),
        ensures o.is_none() ==> r == default, o.is_some() ==> f.ensures((o.unwrap(),), r);
    pub assume_specification<T>[ Option::<T>::or ](o: Option<T>, b: Option<T>) -> (r: Option<T>)
        ensures r == (if o.is_some() { o } else { b });
    pub assume_specification<T, F: FnOnce() -> Option<T>>[ Option::<T>::or_else::<F> ](o: Option<T>, f: F) -> (r: Option<T>)
        requires o.is_none() ==> f.requires(()),
        ensures o.is_some() ==> r == o, o.is_none() ==> f.ensures((), r);
    pub assume_specification<T>[ Option::<T>::xor ](o: Option<T>, b: Option<T>) -> (r: Option<T>)
        ensures r == (if o.is_some() && b.is_none() { o } else if o.is_none() && b.is_some() { b } else { None });
    pub assume_specification<T, U>[ Option::<T>::and::<U> ](o: Option<T>, b: Option<U>) -> (r: Option<U>)
        ensures r == (if o.is_some() { b } else { None });
    pub assume_specification<T, E>[ Result::<T, E>::unwrap_or ](o: Result<T, E>, d: T) -> (r: T)
        ensures r == (match o { Ok(v) => v, Err(_) => d });

    // ---------------------------------------------------------------- rule R8: format!/Display
    /// decimal rendering of an unsigned integer (Display for usize/u16/u32)
    pub open spec fn dec(n: nat) -> Seq<u8>
        decreases n
    {
        if n < 10 { seq![(48 + n) as u8] } else { dec(n / 10).push((48 + n % 10) as u8) }
    }
    /// the UTF-8 bytes of a string (uninterpreted); an ASCII string has one byte per character (trusted)
    pub uninterp spec fn str_bytes(s: &str) -> Seq<u8>;
    #[verifier::external_body]
    pub broadcast proof fn axiom_str_bytes_ascii(s: &str)
        requires s.is_ascii()
        ensures (#[trigger] str_bytes(s)).len() == s@.len() {}
    pub uninterp spec fn string_bytes(s: String) -> Seq<u8>;
    /// Display of an address (uninterpreted; assumed free of CR/LF by the contracts that need it)
    pub uninterp spec fn display_ip(ip: IpAddr) -> Seq<u8>;
    /// Display of an address is short: at most 45 characters (an IPv4-mapped IPv6 address written in full), at least 2 ("::")
    #[verifier::external_body]
    pub broadcast proof fn axiom_display_ip_len(ip: IpAddr)
        ensures 2 <= (#[trigger] display_ip(ip)).len() <= 45 {}
    pub trait FmtDisp { spec fn disp(&self) -> Seq<u8>; }
    impl FmtDisp for usize { open spec fn disp(&self) -> Seq<u8> { dec(*self as nat) } }
    impl FmtDisp for u16 { open spec fn disp(&self) -> Seq<u8> { dec(*self as nat) } }
    impl FmtDisp for u32 { open spec fn disp(&self) -> Seq<u8> { dec(*self as nat) } }
    impl FmtDisp for u8 { open spec fn disp(&self) -> Seq<u8> { dec(*self as nat) } }
    impl FmtDisp for &str { open spec fn disp(&self) -> Seq<u8> { str_bytes(*self) } }
    impl FmtDisp for String { open spec fn disp(&self) -> Seq<u8> { string_bytes(*self) } }
    impl FmtDisp for IpAddr { open spec fn disp(&self) -> Seq<u8> { display_ip(*self) } }
    impl FmtDisp for FmtString { open spec fn disp(&self) -> Seq<u8> { self.bytes@ } }
    /// the String produced by a rewritten format! call
    pub struct FmtString { pub bytes: Vec<u8> }
    impl FmtArg for FmtString { open spec fn fmt_ok(&self) -> bool { true } }
    impl FmtString {
        pub fn into_bytes(self) -> (r: Vec<u8>) ensures r@ == self.bytes@ { self.bytes }
        #[verifier::external_body] pub fn as_bytes(&self) -> (r: &[u8]) ensures r@ == self.bytes@ { unimplemented!() }
        pub fn len(&self) -> (r: usize) ensures r == self.bytes@.len() { self.bytes.len() }
    }
    /// rule R31: a String built from a str whose UTF-8 bytes are a (`"lit".to_string()`, `s.to_string()` for s: &str)
    #[verifier::external_body]
    pub fn str_lit(a: &[u8]) -> (r: FmtString) ensures r.bytes@ == a@ { unimplemented!() }
    /// rule R31: a string-literal match pattern: the scrutinee equals the literal byte for byte
    #[verifier::external_body]
    pub fn str_is(s: &FmtString, a: &[u8]) -> (r: bool) ensures r == (s.bytes@ == a@) { unimplemented!() }
    /// a literal template piece as a byte slice
    #[verifier::external_body]
    pub fn bs<const N: usize>(a: &[u8; N]) -> (r: &[u8]) ensures r@ == a@ { a }
    #[verifier::external_body]
    pub fn fmt_cat1<A: FmtDisp + ?Sized>(p0: &[u8], a: &A, p1: &[u8]) -> (r: FmtString)
        ensures r.bytes@ == p0@ + a.disp() + p1@ { unimplemented!() }
    #[verifier::external_body]
    pub fn fmt_cat2<A: FmtDisp + ?Sized, B: FmtDisp + ?Sized>(p0: &[u8], a: &A, p1: &[u8], b: &B, p2: &[u8]) -> (r: FmtString)
        ensures r.bytes@ == p0@ + a.disp() + p1@ + b.disp() + p2@ { unimplemented!() }
    #[verifier::external_body]
    pub fn fmt_cat3<A: FmtDisp + ?Sized, B: FmtDisp + ?Sized, C: FmtDisp + ?Sized>(p0: &[u8], a: &A, p1: &[u8], b: &B, p2: &[u8], c: &C, p3: &[u8]) -> (r: FmtString)
        ensures r.bytes@ == p0@ + a.disp() + p1@ + b.disp() + p2@ + c.disp() + p3@ { unimplemented!() }
    #[verifier::external_body]
    pub fn fmt_cat4<A: FmtDisp + ?Sized, B: FmtDisp + ?Sized, C: FmtDisp + ?Sized, D: FmtDisp + ?Sized>(p0: &[u8], a: &A, p1: &[u8], b: &B, p2: &[u8], c: &C, p3: &[u8], d: &D, p4: &[u8]) -> (r: FmtString)
        ensures r.bytes@ == p0@ + a.disp() + p1@ + b.disp() + p2@ + c.disp() + p3@ + d.disp() + p4@ { unimplemented!() }

    /// rule R6: `[A, B].concat()`
    #[verifier::external_body]
    pub fn concat2(a: Vec<u8>, b: Vec<u8>) -> (r: Vec<u8>)
        ensures r@ == a@ + b@
    { [a, b].concat() }

    /// rule R35: `v.extend(x)` for x a Vec, a slice, an array or a reference to one (Vec::extend is generic over
    /// IntoIterator, which has no specification): assumed contract = the elements of x are appended in order
    pub trait ExtendShim<S> { fn extend_v(&mut self, s: S); }
    impl<T: Copy> ExtendShim<Vec<T>> for Vec<T> {
        #[verifier::external_body] fn extend_v(&mut self, s: Vec<T>) ensures final(self)@ == old(self)@ + s@ { self.extend(s) } }
    impl<'a, T: Copy> ExtendShim<&'a Vec<T>> for Vec<T> {
        #[verifier::external_body] fn extend_v(&mut self, s: &'a Vec<T>) ensures final(self)@ == old(self)@ + s@ { self.extend(s) } }
    impl<'a, T: Copy> ExtendShim<&'a [T]> for Vec<T> {
        #[verifier::external_body] fn extend_v(&mut self, s: &'a [T]) ensures final(self)@ == old(self)@ + s@ { self.extend(s) } }
    impl<T: Copy, const N: usize> ExtendShim<[T; N]> for Vec<T> {
        #[verifier::external_body] fn extend_v(&mut self, s: [T; N]) ensures final(self)@ == old(self)@ + s@ { self.extend(s) } }
    impl<'a, T: Copy, const N: usize> ExtendShim<&'a [T; N]> for Vec<T> {
        #[verifier::external_body] fn extend_v(&mut self, s: &'a [T; N]) ensures final(self)@ == old(self)@ + s@ { self.extend(s) } }

    /// rule R10: `x.to_be_bytes()` / `x.to_le_bytes()`
    pub trait BytesShim: Sized { type Out; fn to_be_bytes_v(self) -> Self::Out; fn to_le_bytes_v(self) -> Self::Out; }
    impl BytesShim for u16 { type Out = [u8; 2];
        #[verifier::external_body] fn to_be_bytes_v(self) -> (r: [u8; 2])
            ensures r@ == seq![(self / 256) as u8, (self % 256) as u8] { self.to_be_bytes() }
        #[verifier::external_body] fn to_le_bytes_v(self) -> (r: [u8; 2])
            ensures r@ == seq![(self % 256) as u8, (self / 256) as u8] { self.to_le_bytes() }
    }
    /// the 16 big-endian bytes of a u128 (uninterpreted; `to_be_bytes` and byteorder's `read_u128` are inverse)
    pub uninterp spec fn be_bytes16(x: u128) -> Seq<u8>;
    #[verifier::external_body]
    pub broadcast proof fn axiom_be_bytes16_len(x: u128)
        ensures (#[trigger] be_bytes16(x)).len() == 16 {}
    impl BytesShim for u128 { type Out = [u8; 16];
        #[verifier::external_body] fn to_be_bytes_v(self) -> (r: [u8; 16])
            ensures r@ == be_bytes16(self) { self.to_be_bytes() }
        #[verifier::external_body] fn to_le_bytes_v(self) -> (r: [u8; 16])
            ensures r@.len() == 16 { self.to_le_bytes() }
    }
    /// the eight little-endian bytes of a u64 (opaque: the div/mod digits stay out of the solver's way unless revealed)
    #[verifier::opaque]
    pub open spec fn le8(x: u64) -> Seq<u8> {
        seq![(x % 256) as u8, ((x / 0x100) % 256) as u8, ((x / 0x10000) % 256) as u8, ((x / 0x1000000) % 256) as u8,
             ((x / 0x100000000) % 256) as u8, ((x / 0x10000000000) % 256) as u8, ((x / 0x1000000000000) % 256) as u8, (x / 0x100000000000000) as u8]
    }
    pub broadcast proof fn lemma_le8_len(x: u64)
        ensures (#[trigger] le8(x)).len() == 8
    { reveal(le8); }
    impl BytesShim for u64 { type Out = [u8; 8];
        #[verifier::external_body] fn to_be_bytes_v(self) -> (r: [u8; 8])
            ensures r@.len() == 8 { self.to_be_bytes() }
        #[verifier::external_body] fn to_le_bytes_v(self) -> (r: [u8; 8])
            ensures r@ == le8(self) { self.to_le_bytes() }
    }
    impl BytesShim for u32 { type Out = [u8; 4];
        #[verifier::external_body] fn to_be_bytes_v(self) -> (r: [u8; 4])
            ensures r@ == seq![(self / 16777216) as u8, ((self / 65536) % 256) as u8, ((self / 256) % 256) as u8, (self % 256) as u8] { self.to_be_bytes() }
        #[verifier::external_body] fn to_le_bytes_v(self) -> (r: [u8; 4])
            ensures r@ == seq![(self % 256) as u8, ((self / 256) % 256) as u8, ((self / 65536) % 256) as u8, (self / 16777216) as u8] { self.to_le_bytes() }
    }
}
