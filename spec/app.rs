// spec/app.rs -- application-layer vocabulary shared by the transport and dispatch contracts.
pub mod appspec {
    use vstd::prelude::*;
    /// STUN binding request carrying a CHANGE-REQUEST attribute with the change-port flag
    /// (defined in contracts/proto__stun.vspec through `stun_change_port_spec`; opaque to L4)
    pub uninterp spec fn is_stun_change_port(data: Seq<u8>) -> bool;
    /// upper bound of every application reply (proved per responder); keeps every length field exact
    pub open spec fn APP_REPLY_MAX() -> int { 60000 }
    /// largest frame handed to reply() (pnet datalink read buffer), C01's own quantifier
    pub open spec fn FRAME_MAX() -> int { 4096 }
}
pub mod cfgspec {
    use vstd::prelude::*;
    use std::net::IpAddr;
    use crate::Masscanned;
    /// the address is one masscanned answers for: no self-IP list configured, or a member of it
    pub open spec fn handled(m: &Masscanned, ip: IpAddr) -> bool {
        match m.self_ip_list { None => true, Some(s) => s@.contains(ip) }
    }
    pub open spec fn denied(m: &Masscanned, ip: IpAddr) -> bool {
        match m.remote_ip_deny_list { None => false, Some(s) => s@.contains(ip) }
    }
}
