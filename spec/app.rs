// spec/app.rs -- application-layer vocabulary shared by the transport and dispatch contracts.
pub mod appspec {
    use vstd::prelude::*;
    use crate::shim::*;
    /// ---- attribute walk (mirrors RFC 5389 section 15 TLV layout): attribute at offset i of body is well formed
    pub open spec fn tlv_ok(b: Seq<u8>, i: int) -> bool {
        i + 4 <= b.len() && i + 4 + be16(b, i + 2) <= b.len()
        && (be16(b, i) == 1 ==> be16(b, i + 2) >= 4 && ((b[i + 5] == 1 && be16(b, i + 2) >= 8) || (b[i + 5] == 2 && be16(b, i + 2) >= 20)))
        && (be16(b, i) == 3 ==> be16(b, i + 2) >= 4)
    }
    pub open spec fn tlv_change_port(b: Seq<u8>, i: int) -> bool {
        be16(b, i) == 3 && (be32(b, i + 4) & 2u32) != 0u32
    }
    /// some well-formed attribute reached by walking the TLVs from offset i is a CHANGE-REQUEST with the change-port flag
    pub open spec fn walk_change_port(b: Seq<u8>, i: int) -> bool
        decreases b.len() - i
    {
        if 0 <= i && i + 4 < b.len() && tlv_ok(b, i) {
            tlv_change_port(b, i) || walk_change_port(b, i + 4 + be16(b, i + 2))
        } else { false }
    }
    /// C15 / C03: the payload is a STUN message whose attribute list (walked from offset 20 over the declared
    /// length) contains a well-formed CHANGE-REQUEST with the change-port flag
    pub open spec fn stun_change_port_req(d: Seq<u8>) -> bool {
        d.len() >= 20 && d.len() >= 20 + be16(d, 2) && walk_change_port(d.subrange(20, 20 + be16(d, 2)), 0)
    }
    pub open spec fn is_stun_change_port(data: Seq<u8>) -> bool { stun_change_port_req(data) }
    /// upper bound of every application reply (proved per responder); keeps every length field exact
    pub open spec fn APP_REPLY_MAX() -> int { 60000 }
    /// largest frame handed to reply() (pnet datalink read buffer), C01's own quantifier
    pub open spec fn FRAME_MAX() -> int { 4096 }
}
pub mod cfgspec {
    use vstd::prelude::*;
    use std::net::IpAddr;
    use crate::Masscanned;
    /// the address is one masscanned answers for: no self-IP list configured, or a member of it
    pub open spec fn handled(m: &Masscanned, ip: IpAddr) -> bool {
        match m.self_ip_list { None => true, Some(s) => s@.contains(ip) }
    }
    pub open spec fn denied(m: &Masscanned, ip: IpAddr) -> bool {
        match m.remote_ip_deny_list { None => false, Some(s) => s@.contains(ip) }
    }
}
