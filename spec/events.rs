// spec/events.rs -- vocabulary for C20 (event log) written from the property statement.
pub mod evspec {
    use vstd::prelude::*;
    use crate::{Ev, Layer, Verb};

    /// nesting depth of a layer: Ethernet outermost
    pub open spec fn rank(l: Layer) -> int {
        match l {
            Layer::Eth => 0,
            Layer::Arp => 1, Layer::Ipv4 => 1, Layer::Ipv6 => 1,
            Layer::Icmpv4 => 2, Layer::Icmpv6 => 2, Layer::Tcp => 2, Layer::Udp => 2,
        }
    }
    pub open spec fn terminal(v: Verb) -> bool { v == Verb::Send || v == Verb::Drop }

    /// `s` is the account of exactly one layer: one recv first, one terminal event of the same layer
    /// last, and in between nothing or the account of exactly one strictly deeper layer.
    pub open spec fn well_nested(s: Seq<Ev>) -> bool
        decreases s.len()
    {
        s.len() >= 2
        && s[0].verb == Verb::Recv
        && terminal(s.last().verb)
        && s.last().layer == s[0].layer
        && (s.len() == 2 || (
               well_nested(s.subrange(1, s.len() - 1))
            && rank(s[1].layer) > rank(s[0].layer)))
    }
    /// the events appended by one call of a layer function
    pub open spec fn appended(old_ev: Seq<Ev>, new_ev: Seq<Ev>) -> Seq<Ev> {
        new_ev.subrange(old_ev.len() as int, new_ev.len() as int)
    }
    /// contract shape of every layer function: it appends one well-nested account of its own layer
    /// whose terminal verb is `send` exactly when it returns a reply
    pub open spec fn layer_account(old_ev: Seq<Ev>, new_ev: Seq<Ev>, layer: Layer, sent: bool) -> bool {
        old_ev.len() + 2 <= new_ev.len()
        && (forall|i: int| 0 <= i < old_ev.len() ==> #[trigger] new_ev[i] == old_ev[i])
        && well_nested(appended(old_ev, new_ev))
        && new_ev[old_ev.len() as int].layer == layer
        && (new_ev.last().verb == Verb::Send <==> sent)
    }

    /// leaf case: exactly two events
    pub broadcast proof fn lemma_leaf(old_ev: Seq<Ev>, a: Ev, b: Ev)
        requires a.verb == Verb::Recv, terminal(b.verb), a.layer == b.layer
        ensures layer_account(old_ev, #[trigger] old_ev.push(a).push(b), a.layer, b.verb == Verb::Send)
    {
        let n = old_ev.push(a).push(b);
        let ap = appended(old_ev, n);
        assert(ap == seq![a, b]);
        assert(well_nested(ap));
    }

    /// wrapping case: own recv, the inner layer's account, own terminal
    pub broadcast proof fn lemma_wrap(old_ev: Seq<Ev>, mid2: Seq<Ev>, a: Ev, b: Ev, inner: Layer, inner_sent: bool)
        requires
            a.verb == Verb::Recv, terminal(b.verb), a.layer == b.layer,
            #[trigger] layer_account(old_ev.push(a), mid2, inner, inner_sent),
            rank(inner) > rank(a.layer),
        ensures layer_account(old_ev, #[trigger] mid2.push(b), a.layer, b.verb == Verb::Send)
    {
        let mid1 = old_ev.push(a);
        let n = mid2.push(b);
        let ap = appended(old_ev, n);
        let inner_ap = appended(mid1, mid2);
        assert forall|i: int| 0 <= i < old_ev.len() implies n[i] == old_ev[i] by {
            assert(mid2[i] == mid1[i]);
        }
        assert(ap[0] == a) by {
            assert(mid2[old_ev.len() as int] == mid1[old_ev.len() as int]);
        }
        assert(ap.last() == b);
        assert(ap.subrange(1, ap.len() - 1) == inner_ap);
        assert(ap[1] == inner_ap[0]);
        assert(inner_ap[0] == mid2[mid1.len() as int]);
        assert(well_nested(ap));
    }
    pub broadcast group group_events { lemma_leaf, lemma_wrap }
}
