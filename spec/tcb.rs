// spec/tcb.rs -- representation invariant of a connection-table entry (DESIGN 3.4).
pub mod tcbspec {
    use vstd::prelude::*;
    use crate::proto::tcb::{TCPControlBlock, ProtocolState};
    use crate::World;
    /// the value of the lazily initialised constant PROTO_SMACK (rule R3): one fixed automaton; its
    /// well-formedness and id range are ground facts checked on the real table on every run
    pub uninterp spec fn PROTO_TABLE() -> crate::smack::Smack;
    #[verifier::external_body]
    pub broadcast proof fn axiom_proto_table()
        ensures #[trigger] PROTO_TABLE().wf(), PROTO_TABLE().resting(0),
            PROTO_TABLE().all_ids_between(1, 8) {}
    /// `smack_state` is a (row, pending) pair of the compiled PROTO_SMACK automaton
    pub open spec fn smack_state_ok(s: usize) -> bool { PROTO_TABLE().state_ok(s) }
    /// the value of the lazily initialised constant HTTP_SMACK (rule R3); ground facts checked on the real table:
    /// wf(), every match row reports exactly one id, ids within 0..=4, BASE and UNANCHORED are resting states
    pub uninterp spec fn HTTP_TABLE() -> crate::smack::Smack;
    #[verifier::external_body]
    pub broadcast proof fn axiom_http_table()
        ensures #[trigger] HTTP_TABLE().wf(), HTTP_TABLE().resting(0), HTTP_TABLE().resting(1), HTTP_TABLE().all_ids_between(0, 4),
            forall|r: int| 0 <= r < HTTP_TABLE().rows() ==> (#[trigger] HTTP_TABLE().m_match@[r]).m_count <= 1 {}
    /// inner parser states are within their state sets
    pub open spec fn http_state_wf(h: crate::proto::http::ProtocolState) -> bool {
        HTTP_TABLE().state_ok(h.smack_state) && (h.smack_state >> 24) == 0
    }
    pub uninterp spec fn rpc_state_wf(r: crate::proto::rpc::ProtocolState) -> bool;
    pub open spec fn tcb_wf(t: TCPControlBlock) -> bool {
        smack_state_ok(t.smack_state)
        && t.proto_id <= 8
        && (t.proto_id == 0 ==> PROTO_TABLE().resting(t.smack_state))
        && (t.proto_state matches Some(ProtocolState::HTTP(h)) ==> t.proto_id == 1 && http_state_wf(h))
        && (t.proto_state matches Some(ProtocolState::RPC(r)) ==> t.proto_id == 5 && rpc_state_wf(r))
    }
    pub open spec fn table_wf(m: Map<u32, TCPControlBlock>) -> bool {
        forall|k: u32| #[trigger] m.dom().contains(k) ==> tcb_wf(m[k])
    }
    pub open spec fn world_wf(w: &World) -> bool { table_wf(w.table()) }
    /// BASE_STATE (0: row 0, nothing pending) is a resting state of the compiled automaton
    pub broadcast proof fn axiom_base_state_ok()
        ensures #[trigger] smack_state_ok(0), PROTO_TABLE().resting(0)
    {
        broadcast use axiom_proto_table;
        assert(PROTO_TABLE().wf());
        assert(0usize & 0xFFFFFF == 0 && 0usize >> 24 == 0) by(bit_vector);
    }
}
