// spec/tcb.rs -- representation invariant of a connection-table entry (DESIGN 3.4).
pub mod tcbspec {
    use vstd::prelude::*;
    use crate::proto::tcb::{TCPControlBlock, ProtocolState};
    use crate::World;
    /// the value of the lazily initialised constant PROTO_SMACK (rule R3): one fixed automaton; its
    /// well-formedness and id range are ground facts checked on the real table on every run
    pub uninterp spec fn PROTO_TABLE() -> crate::smack::Smack;
    #[verifier::external_body]
    pub broadcast proof fn axiom_proto_table()
        ensures #[trigger] PROTO_TABLE().wf(), PROTO_TABLE().resting(0),
            PROTO_TABLE().all_ids_between(1, 8) {}
    /// `smack_state` is a (row, pending) pair of the compiled PROTO_SMACK automaton
    pub open spec fn smack_state_ok(s: usize) -> bool { PROTO_TABLE().state_ok(s) }
    /// the value of the lazily initialised constant HTTP_SMACK (rule R3); ground facts checked on the real table:
    /// wf(), every match row reports exactly one id, ids within 0..=4, BASE and UNANCHORED are resting states
    pub uninterp spec fn HTTP_TABLE() -> crate::smack::Smack;
    #[verifier::external_body]
    pub broadcast proof fn axiom_http_table()
        ensures #[trigger] HTTP_TABLE().wf(), HTTP_TABLE().resting(0), HTTP_TABLE().resting(1), HTTP_TABLE().all_ids_between(0, 4),
            forall|r: int| 0 <= r < HTTP_TABLE().rows() ==> (#[trigger] HTTP_TABLE().m_match@[r]).m_count <= 1 {}
    /// inner parser states are within their state sets
    pub open spec fn http_state_wf(h: crate::proto::http::ProtocolState) -> bool {
        HTTP_TABLE().state_ok(h.smack_state) && (h.smack_state >> 24) == 0
    }
    pub open spec fn pow256u(k: u32) -> int { if k == 0 { 1 } else if k == 1 { 256 } else if k == 2 { 65536 } else if k == 3 { 16777216 } else { 4294967296 } }
    /// representation invariant of the incremental ONC-RPC call parser: the 32-bit field being read holds the
    /// bytes read so far, fields not yet reached are zero, a counted string is only entered with a positive count
    pub open spec fn rpc_state_wf(r: crate::proto::rpc::ProtocolState) -> bool {
        use crate::proto::rpc::RpcState;
        &&& r.cur_len < 4
        &&& match r.state {
            RpcState::Frag => r.xid == 0 && r.message_type == 0 && r.rpc_version == 0 && r.program == 0 && r.prog_version == 0 && r.procedure == 0 && r.creds_flavor == 0 && r.verif_flavor == 0 && r.data_len == 0,
            RpcState::Xid => (r.xid as int) < pow256u(r.cur_len) && r.message_type == 0 && r.rpc_version == 0 && r.program == 0 && r.prog_version == 0 && r.procedure == 0 && r.creds_flavor == 0 && r.verif_flavor == 0 && r.data_len == 0,
            RpcState::MessageType => (r.message_type as int) < pow256u(r.cur_len) && r.rpc_version == 0 && r.program == 0 && r.prog_version == 0 && r.procedure == 0 && r.creds_flavor == 0 && r.verif_flavor == 0 && r.data_len == 0,
            RpcState::RpcVersion => (r.rpc_version as int) < pow256u(r.cur_len) && r.program == 0 && r.prog_version == 0 && r.procedure == 0 && r.creds_flavor == 0 && r.verif_flavor == 0 && r.data_len == 0,
            RpcState::Program => (r.program as int) < pow256u(r.cur_len) && r.prog_version == 0 && r.procedure == 0 && r.creds_flavor == 0 && r.verif_flavor == 0 && r.data_len == 0,
            RpcState::ProgramVersion => (r.prog_version as int) < pow256u(r.cur_len) && r.procedure == 0 && r.creds_flavor == 0 && r.verif_flavor == 0 && r.data_len == 0,
            RpcState::Procedure => (r.procedure as int) < pow256u(r.cur_len) && r.creds_flavor == 0 && r.verif_flavor == 0 && r.data_len == 0,
            RpcState::CredsFlavor => (r.creds_flavor as int) < pow256u(r.cur_len) && r.verif_flavor == 0 && r.data_len == 0,
            RpcState::CredsLen => (r.data_len as int) < pow256u(r.cur_len) && r.verif_flavor == 0,
            RpcState::Creds => r.data_len >= 1 && r.cur_len == 0 && r.verif_flavor == 0,
            RpcState::VerifFlavor => (r.verif_flavor as int) < pow256u(r.cur_len) && r.data_len == 0,
            RpcState::VerifLen => (r.data_len as int) < pow256u(r.cur_len),
            RpcState::Verif => r.data_len >= 1 && r.cur_len == 0,
            RpcState::End => r.cur_len == 0,
        }
    }
    pub open spec fn tcb_wf(t: TCPControlBlock) -> bool {
        smack_state_ok(t.smack_state)
        && t.proto_id <= 8
        && (t.proto_id == 0 ==> PROTO_TABLE().resting(t.smack_state))
        && (t.proto_state matches Some(ProtocolState::HTTP(h)) ==> t.proto_id == 1 && http_state_wf(h))
        && (t.proto_state matches Some(ProtocolState::RPC(r)) ==> t.proto_id == 5 && rpc_state_wf(r))
    }
    pub open spec fn table_wf(m: Map<u32, TCPControlBlock>) -> bool {
        forall|k: u32| #[trigger] m.dom().contains(k) ==> tcb_wf(m[k])
    }
    pub open spec fn world_wf(w: &World) -> bool { table_wf(w.table()) }
    /// BASE_STATE (0: row 0, nothing pending) is a resting state of the compiled automaton
    pub broadcast proof fn axiom_base_state_ok()
        ensures #[trigger] smack_state_ok(0), PROTO_TABLE().resting(0)
    {
        broadcast use axiom_proto_table;
        assert(PROTO_TABLE().wf());
        assert(0usize & 0xFFFFFF == 0 && 0usize >> 24 == 0) by(bit_vector);
    }
}
