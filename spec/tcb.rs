// spec/tcb.rs -- representation invariant of a connection-table entry (DESIGN 3.4).
pub mod tcbspec {
    use vstd::prelude::*;
    use crate::proto::tcb::{TCPControlBlock, ProtocolState};
    use crate::World;
    /// `smack_state` is a (row, pending) pair of the compiled PROTO_SMACK automaton (defined with the matcher)
    pub uninterp spec fn smack_state_ok(s: usize) -> bool;
    /// inner parser states are within their state sets (defined with each parser)
    pub uninterp spec fn http_state_wf(h: crate::proto::http::ProtocolState) -> bool;
    pub uninterp spec fn rpc_state_wf(r: crate::proto::rpc::ProtocolState) -> bool;
    pub open spec fn tcb_wf(t: TCPControlBlock) -> bool {
        smack_state_ok(t.smack_state)
        && (t.proto_state matches Some(ProtocolState::HTTP(h)) ==> t.proto_id == 1 && http_state_wf(h))
        && (t.proto_state matches Some(ProtocolState::RPC(r)) ==> t.proto_id == 5 && rpc_state_wf(r))
    }
    pub open spec fn table_wf(m: Map<u32, TCPControlBlock>) -> bool {
        forall|k: u32| #[trigger] m.dom().contains(k) ==> tcb_wf(m[k])
    }
    pub open spec fn world_wf(w: &World) -> bool { table_wf(w.table()) }
    /// BASE_STATE (0: row 0, nothing pending) is a state of every compiled automaton
    #[verifier::external_body]
    pub broadcast proof fn axiom_base_state_ok()
        ensures #[trigger] smack_state_ok(0) {}
}
