// spec/tcp.rs -- TCP vocabulary written from the statements of C06, C07, C09.
pub mod tcpspec {
    use vstd::prelude::*;
    use std::net::IpAddr;
    use crate::shim::*;
    use crate::siphasher::sip::{sip24, le_bytes};
    use crate::stdshim::be_val;

    pub open spec fn has(f: u16, b: u16) -> bool { f & b != 0 }
    /// C06: SYN set, the remaining flags are a subset of {PSH, URG, CWR, ECE} not containing both CWR and ECE
    pub open spec fn syn_allowed(f: u16) -> bool {
        has(f, 2) && (f & !(2u16 | 8u16 | 32u16 | 128u16 | 64u16)) == 0 && !(has(f, 128) && has(f, 64))
    }
    pub open spec fn same_family(a: IpAddr, b: IpAddr) -> bool {
        (a is V4 && b is V4) || (a is V6 && b is V6)
    }
    /// the byte string hashed for the cookie: fixed-width fields, 12 bytes (IPv4) or 36 bytes (IPv6)
    pub open spec fn cookie_enc(src: IpAddr, dst: IpAddr, sport: u16, dport: u16) -> Seq<u8> {
        match (src, dst) {
            (IpAddr::V4(s), IpAddr::V4(d)) => le_bytes(be_val(ip4_octets(s)), 4) + le_bytes(be_val(ip4_octets(d)), 4)
                + le_bytes(sport as nat, 2) + le_bytes(dport as nat, 2),
            (IpAddr::V6(s), IpAddr::V6(d)) => le_bytes(be_val(ip6_octets(s)), 16) + le_bytes(be_val(ip6_octets(d)), 16)
                + le_bytes(sport as nat, 2) + le_bytes(dport as nat, 2),
            _ => Seq::<u8>::empty(),
        }
    }
    /// C06: the cookie depends only on (key, src ip, dst ip, src port, dst port)
    pub open spec fn cookie_spec(key: [u64; 2], src: IpAddr, dst: IpAddr, sport: u16, dport: u16) -> u32 {
        (sip24(key[0], key[1], cookie_enc(src, dst, sport, dport)) % 0x1_0000_0000) as u32
    }
    pub open spec fn p256(n: nat) -> nat decreases n { if n == 0 { 1 } else { 256 * p256((n - 1) as nat) } }

    /*PROVED_IN:u_tcp*/ pub proof fn lemma_le_bytes_len(x: nat, n: nat)
        ensures le_bytes(x, n).len() == n
        decreases n
    { if n > 0 { lemma_le_bytes_len(x / 256, (n - 1) as nat); } }

    /// little-endian digits are injective on values that fit
    /*PROVED_IN:u_tcp*/ pub proof fn lemma_le_bytes_inj(x: nat, y: nat, n: nat)
        requires x < p256(n), y < p256(n), le_bytes(x, n) == le_bytes(y, n)
        ensures x == y
        decreases n
    {
        if n == 0 { } else {
            let a = le_bytes(x, n); let b = le_bytes(y, n);
            lemma_le_bytes_len(x / 256, (n - 1) as nat); lemma_le_bytes_len(y / 256, (n - 1) as nat);
            assert(a[0] == (x % 256) as u8); assert(b[0] == (y % 256) as u8);
            assert(a.subrange(1, a.len() as int) =~= le_bytes(x / 256, (n - 1) as nat));
            assert(b.subrange(1, b.len() as int) =~= le_bytes(y / 256, (n - 1) as nat));
            assert(x / 256 < p256((n - 1) as nat)) by(nonlinear_arith) requires x < 256 * p256((n - 1) as nat);
            assert(y / 256 < p256((n - 1) as nat)) by(nonlinear_arith) requires y < 256 * p256((n - 1) as nat);
            lemma_le_bytes_inj(x / 256, y / 256, (n - 1) as nat);
            assert(x % 256 == y % 256);
            assert(x == 256 * (x / 256) + x % 256); assert(y == 256 * (y / 256) + y % 256);
        }
    }
    /*PROVED_IN:u_tcp*/ pub proof fn lemma_be_val_bound(b: Seq<u8>)
        ensures be_val(b) < p256(b.len())
        decreases b.len()
    {
        if b.len() > 0 {
            lemma_be_val_bound(b.drop_last());
            assert(be_val(b.drop_last()) * 256 + (b.last() as nat) < 256 * p256((b.len() - 1) as nat)) by(nonlinear_arith)
                requires be_val(b.drop_last()) < p256((b.len() - 1) as nat), (b.last() as nat) < 256;
        }
    }
    /*PROVED_IN:u_tcp*/ pub proof fn lemma_be_val_inj(a: Seq<u8>, b: Seq<u8>)
        requires a.len() == b.len(), be_val(a) == be_val(b)
        ensures a == b
        decreases a.len()
    {
        if a.len() > 0 {
            let x = be_val(a.drop_last()); let y = be_val(b.drop_last());
            assert(x * 256 + a.last() as nat == y * 256 + b.last() as nat);
            assert(x == y && a.last() == b.last()) by(nonlinear_arith)
                requires x * 256 + a.last() as nat == y * 256 + b.last() as nat, (a.last() as nat) < 256, (b.last() as nat) < 256;
            lemma_be_val_inj(a.drop_last(), b.drop_last());
            assert(a =~= a.drop_last().push(a.last())); assert(b =~= b.drop_last().push(b.last()));
        } else { assert(a =~= b); }
    }
    /// the address/port fields of the hashed string can be read back: 4 fixed-width blocks
    /*PROVED_IN:u_tcp*/ pub proof fn lemma_concat4_inj(a1: Seq<u8>, b1: Seq<u8>, c1: Seq<u8>, d1: Seq<u8>, a2: Seq<u8>, b2: Seq<u8>, c2: Seq<u8>, d2: Seq<u8>)
        requires a1.len() == a2.len(), b1.len() == b2.len(), c1.len() == c2.len(), d1.len() == d2.len(), a1 + b1 + c1 + d1 == a2 + b2 + c2 + d2
        ensures a1 == a2, b1 == b2, c1 == c2, d1 == d2
    {
        let s1 = a1 + b1 + c1 + d1; let s2 = a2 + b2 + c2 + d2;
        let la = a1.len() as int; let lb = b1.len() as int; let lc = c1.len() as int; let ld = d1.len() as int;
        assert(s1.subrange(0, la) =~= a1); assert(s2.subrange(0, la) =~= a2);
        assert(s1.subrange(la, la + lb) =~= b1); assert(s2.subrange(la, la + lb) =~= b2);
        assert(s1.subrange(la + lb, la + lb + lc) =~= c1); assert(s2.subrange(la + lb, la + lb + lc) =~= c2);
        assert(s1.subrange(la + lb + lc, la + lb + lc + ld) =~= d1); assert(s2.subrange(la + lb + lc, la + lb + lc + ld) =~= d2);
    }


    /// C06 (statement: "the cookie depends only on the 4-tuple"; converse direction used by C07/C08's A_inj
    /// discussion): the string hashed for the cookie determines the 4-tuple, i.e. two distinct flows of the same
    /// address family are never hashed as the same string; a cookie collision is a SipHash collision (mod 2^32).
    /*PROVED_IN:u_tcp*/ pub proof fn lemma_cookie_enc_injective(s1: IpAddr, d1: IpAddr, sp1: u16, dp1: u16, s2: IpAddr, d2: IpAddr, sp2: u16, dp2: u16)
        requires same_family(s1, d1), same_family(s2, d2), cookie_enc(s1, d1, sp1, dp1) == cookie_enc(s2, d2, sp2, dp2)
        ensures s1 == s2, d1 == d2, sp1 == sp2, dp1 == dp2
    {
        broadcast use crate::shim::group_ip_axioms;
        reveal_with_fuel(p256, 3);
        assert(p256(2) == 65536);
        let e1 = cookie_enc(s1, d1, sp1, dp1); let e2 = cookie_enc(s2, d2, sp2, dp2);
        lemma_le_bytes_len(sp1 as nat, 2); lemma_le_bytes_len(dp1 as nat, 2); lemma_le_bytes_len(sp2 as nat, 2); lemma_le_bytes_len(dp2 as nat, 2);
        match (s1, d1) {
            (IpAddr::V4(a1), IpAddr::V4(b1)) => {
                lemma_le_bytes_len(be_val(ip4_octets(a1)), 4); lemma_le_bytes_len(be_val(ip4_octets(b1)), 4);
                assert(e1.len() == 12);
                match (s2, d2) {
                    (IpAddr::V4(a2), IpAddr::V4(b2)) => {
                        lemma_le_bytes_len(be_val(ip4_octets(a2)), 4); lemma_le_bytes_len(be_val(ip4_octets(b2)), 4);
                        lemma_concat4_inj(le_bytes(be_val(ip4_octets(a1)), 4), le_bytes(be_val(ip4_octets(b1)), 4), le_bytes(sp1 as nat, 2), le_bytes(dp1 as nat, 2),
                                          le_bytes(be_val(ip4_octets(a2)), 4), le_bytes(be_val(ip4_octets(b2)), 4), le_bytes(sp2 as nat, 2), le_bytes(dp2 as nat, 2));
                        lemma_be_val_bound(ip4_octets(a1)); lemma_be_val_bound(ip4_octets(a2)); lemma_be_val_bound(ip4_octets(b1)); lemma_be_val_bound(ip4_octets(b2));
                        lemma_le_bytes_inj(be_val(ip4_octets(a1)), be_val(ip4_octets(a2)), 4); lemma_le_bytes_inj(be_val(ip4_octets(b1)), be_val(ip4_octets(b2)), 4);
                        lemma_be_val_inj(ip4_octets(a1), ip4_octets(a2)); lemma_be_val_inj(ip4_octets(b1), ip4_octets(b2));
                        assert(ip4_from(ip4_octets(a1)) == a1 && ip4_from(ip4_octets(a2)) == a2 && ip4_from(ip4_octets(b1)) == b1 && ip4_from(ip4_octets(b2)) == b2);
                        lemma_le_bytes_inj(sp1 as nat, sp2 as nat, 2); lemma_le_bytes_inj(dp1 as nat, dp2 as nat, 2);
                    }
                    (IpAddr::V6(a2), IpAddr::V6(b2)) => {
                        lemma_le_bytes_len(be_val(ip6_octets(a2)), 16); lemma_le_bytes_len(be_val(ip6_octets(b2)), 16);
                        assert(e2.len() == 36);
                    }
                    _ => {}
                }
            }
            (IpAddr::V6(a1), IpAddr::V6(b1)) => {
                lemma_le_bytes_len(be_val(ip6_octets(a1)), 16); lemma_le_bytes_len(be_val(ip6_octets(b1)), 16);
                assert(e1.len() == 36);
                match (s2, d2) {
                    (IpAddr::V6(a2), IpAddr::V6(b2)) => {
                        lemma_le_bytes_len(be_val(ip6_octets(a2)), 16); lemma_le_bytes_len(be_val(ip6_octets(b2)), 16);
                        lemma_concat4_inj(le_bytes(be_val(ip6_octets(a1)), 16), le_bytes(be_val(ip6_octets(b1)), 16), le_bytes(sp1 as nat, 2), le_bytes(dp1 as nat, 2),
                                          le_bytes(be_val(ip6_octets(a2)), 16), le_bytes(be_val(ip6_octets(b2)), 16), le_bytes(sp2 as nat, 2), le_bytes(dp2 as nat, 2));
                        lemma_be_val_bound(ip6_octets(a1)); lemma_be_val_bound(ip6_octets(a2)); lemma_be_val_bound(ip6_octets(b1)); lemma_be_val_bound(ip6_octets(b2));
                        lemma_le_bytes_inj(be_val(ip6_octets(a1)), be_val(ip6_octets(a2)), 16); lemma_le_bytes_inj(be_val(ip6_octets(b1)), be_val(ip6_octets(b2)), 16);
                        lemma_be_val_inj(ip6_octets(a1), ip6_octets(a2)); lemma_be_val_inj(ip6_octets(b1), ip6_octets(b2));
                        assert(ip6_from(ip6_octets(a1)) == a1 && ip6_from(ip6_octets(a2)) == a2 && ip6_from(ip6_octets(b1)) == b1 && ip6_from(ip6_octets(b2)) == b2);
                        lemma_le_bytes_inj(sp1 as nat, sp2 as nat, 2); lemma_le_bytes_inj(dp1 as nat, dp2 as nat, 2);
                    }
                    (IpAddr::V4(a2), IpAddr::V4(b2)) => {
                        lemma_le_bytes_len(be_val(ip4_octets(a2)), 4); lemma_le_bytes_len(be_val(ip4_octets(b2)), 4);
                        assert(e2.len() == 12);
                    }
                    _ => {}
                }
            }
            _ => {}
        }
    }

}
