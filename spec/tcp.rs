// spec/tcp.rs -- TCP vocabulary written from the statements of C06, C07, C09.
pub mod tcpspec {
    use vstd::prelude::*;
    use std::net::IpAddr;
    use crate::shim::*;
    use crate::siphasher::sip::{sip24, le_bytes};
    use crate::stdshim::be_val;

    pub open spec fn has(f: u16, b: u16) -> bool { f & b != 0 }
    /// C06: SYN set, the remaining flags are a subset of {PSH, URG, CWR, ECE} not containing both CWR and ECE
    pub open spec fn syn_allowed(f: u16) -> bool {
        has(f, 2) && (f & !(2u16 | 8u16 | 32u16 | 128u16 | 64u16)) == 0 && !(has(f, 128) && has(f, 64))
    }
    pub open spec fn same_family(a: IpAddr, b: IpAddr) -> bool {
        (a is V4 && b is V4) || (a is V6 && b is V6)
    }
    /// the byte string hashed for the cookie: fixed-width fields, 12 bytes (IPv4) or 36 bytes (IPv6)
    pub open spec fn cookie_enc(src: IpAddr, dst: IpAddr, sport: u16, dport: u16) -> Seq<u8> {
        match (src, dst) {
            (IpAddr::V4(s), IpAddr::V4(d)) => le_bytes(be_val(ip4_octets(s)), 4) + le_bytes(be_val(ip4_octets(d)), 4)
                + le_bytes(sport as nat, 2) + le_bytes(dport as nat, 2),
            (IpAddr::V6(s), IpAddr::V6(d)) => le_bytes(be_val(ip6_octets(s)), 16) + le_bytes(be_val(ip6_octets(d)), 16)
                + le_bytes(sport as nat, 2) + le_bytes(dport as nat, 2),
            _ => Seq::<u8>::empty(),
        }
    }
    /// C06: the cookie depends only on (key, src ip, dst ip, src port, dst port)
    pub open spec fn cookie_spec(key: [u64; 2], src: IpAddr, dst: IpAddr, sport: u16, dport: u16) -> u32 {
        (sip24(key[0], key[1], cookie_enc(src, dst, sport, dport)) % 0x1_0000_0000) as u32
    }
}
