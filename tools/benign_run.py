#!/usr/bin/env python3
"""benign_run.py <id> <diff-file> [description]
Applies a behaviour-preserving edit to /repo, runs every registered quick check, undoes the edit and
stores the diff + outcome under /verif/benign/<id>/.  Expected outcome: every check exits 0.
Exit 2 (undecided) is a robustness gap; exit 1 is a false alarm and must be corrected in the machinery."""
import sys, os, re, subprocess, json, shutil
VERIF = os.path.dirname(os.path.dirname(os.path.abspath(__file__)))
def sh(cmd, cwd=None, timeout=3600):
    p = subprocess.run(cmd, shell=True, cwd=cwd, stdout=subprocess.PIPE, stderr=subprocess.STDOUT, timeout=timeout)
    return p.returncode, p.stdout.decode('utf-8', 'replace')
def main():
    bid, diff = sys.argv[1], sys.argv[2]
    desc = sys.argv[3] if len(sys.argv) > 3 else ''
    rc, out = sh('git -C /repo status --short | grep -v "^??" | head -3')
    assert out.strip() == '', '/repo is dirty: ' + out
    d = os.path.join(VERIF, 'benign', bid)
    os.makedirs(d, exist_ok=True)
    if os.path.abspath(diff) != os.path.join(d, 'patch.diff'):
        shutil.copy(diff, os.path.join(d, 'patch.diff'))
    rc, out = sh('git -C /repo apply %s' % os.path.join(d, 'patch.diff'))
    assert rc == 0, out
    res = {}
    try:
        rc, out = sh('./check --all', cwd=VERIF)
        for l in out.split('\n'):
            mo = re.match(r'(C\d+): units=(\d+) verus-verified=(\d+) violations=(\d+) known=(\d+) undecided=(\d+)', l)
            if mo:
                res[mo.group(1)] = {'violations': int(mo.group(4)), 'undecided': int(mo.group(6))}
        lines = [l[:500] for l in out.split('\n') if l.startswith('VIOLATION') or l.startswith('UNDECIDED')]
    finally:
        sh('git -C /repo checkout -- .')
    bad = {k: v for k, v in res.items() if v['violations'] or v['undecided']}
    meta = {'id': bid, 'description': desc, 'all_exit': rc, 'not_clean': bad, 'lines': lines,
            'false_alarm': any(v['violations'] for v in res.values()), 'undecided': any(v['undecided'] for v in res.values())}
    json.dump(meta, open(os.path.join(d, 'meta.json'), 'w'), indent=1)
    print(bid, 'exit', rc, 'FALSE-ALARM' if meta['false_alarm'] else ('undecided' if meta['undecided'] else 'clean'))
    for l in lines[:12]: print('   ', l[:300])
if __name__ == '__main__':
    main()
