#!/usr/bin/env python3
"""Generates shim/pnet.rs (Verus axioms for the pnet 0.33.0 API used by masscanned) and
kani/pnet_axioms/src/generated.rs (Kani harnesses that check the very same table against the real
pnet_packet source).  The TABLE below is the trusted statement; everything else is derived.

Derived line by line from `cargo rustc -p pnet_packet -- -Zunpretty=expanded` (pnet_packet 0.33.0).
"""
import os, sys

VERIF = os.path.dirname(os.path.dirname(os.path.abspath(__file__)))

# field kinds:
#  ('u8', off) ('u16', off) ('u32', off)                      big-endian integers
#  ('nt8', off, Type) ('nt16', off, Type)                       new-type wrappers `Type(pub uN)`
#  ('mac', off) ('ip4', off) ('ip6', off)
#  ('bits8', off, mask, shift)                                  sub-byte field typed u8:  (b & mask) >> shift
#  ('tcpflags',)                                                9-bit TCP flags, u16
SPEC_ONLY = {('ip4', 'frag_hi'), ('ip4', 'frag_lo')}
PACKETS = [
 dict(mod='ethernet', name='Ethernet', prefix='eth', min=14,
      fields=[('destination', ('mac', 0)), ('source', ('mac', 6)), ('ethertype', ('nt16', 12, 'EtherType'))],
      payload='from:14', set_payload='at:14'),
 dict(mod='arp', name='Arp', prefix='arp', min=28,
      fields=[('hardware_type', ('nt16', 0, 'ArpHardwareType')), ('protocol_type', ('nt16', 2, 'crate::pnet::packet::ethernet::EtherType')),
              ('hw_addr_len', ('u8', 4)), ('proto_addr_len', ('u8', 5)), ('operation', ('nt16', 6, 'ArpOperation')),
              ('sender_hw_addr', ('mac', 8)), ('sender_proto_addr', ('ip4', 14)),
              ('target_hw_addr', ('mac', 18)), ('target_proto_addr', ('ip4', 24))],
      payload='arp', set_payload=None),
 dict(mod='ipv4', name='Ipv4', prefix='ip4', min=20,
      fields=[('version', ('bits8', 0, 0xf0, 4)), ('header_length', ('bits8', 0, 0x0f, 0)),
              ('dscp', ('bits8', 1, 0xfc, 2)), ('ecn', ('bits8', 1, 0x03, 0)),
              ('total_length', ('u16', 2)), ('identification', ('u16', 4)),
              ('flags', ('bits8', 6, 0xe0, 5)), ('frag_hi', ('bits8', 6, 0x1f, 0)), ('frag_lo', ('u8', 7)), ('ttl', ('u8', 8)),
              ('next_level_protocol', ('nt8', 9, 'crate::pnet::packet::ip::IpNextHeaderProtocol')),
              ('checksum', ('u16', 10)), ('source', ('ip4', 12)), ('destination', ('ip4', 16))],
      payload='ipv4', set_payload='ipv4'),
 dict(mod='ipv6', name='Ipv6', prefix='ip6', min=40,
      fields=[('version', ('bits8', 0, 0xf0, 4)), ('payload_length', ('u16', 4)),
              ('next_header', ('nt8', 6, 'crate::pnet::packet::ip::IpNextHeaderProtocol')), ('hop_limit', ('u8', 7)),
              ('source', ('ip6', 8)), ('destination', ('ip6', 24))],
      payload='ipv6', set_payload='ipv6'),
 dict(mod='tcp', name='Tcp', prefix='tcp', min=20,
      fields=[('source', ('u16', 0)), ('destination', ('u16', 2)), ('sequence', ('u32', 4)), ('acknowledgement', ('u32', 8)),
              ('data_offset', ('bits8', 12, 0xf0, 4)), ('flags', ('tcpflags',)), ('window', ('u16', 14)),
              ('checksum', ('u16', 16)), ('urgent_ptr', ('u16', 18))],
      payload='tcp', set_payload='tcp'),
 dict(mod='udp', name='Udp', prefix='udp', min=8,
      fields=[('source', ('u16', 0)), ('destination', ('u16', 2)), ('length', ('u16', 4)), ('checksum', ('u16', 6))],
      payload='from:8', set_payload='at:8'),
 dict(mod='icmp', name='Icmp', prefix='icmp', min=4,
      fields=[('icmp_type', ('nt8', 0, 'IcmpType')), ('icmp_code', ('nt8', 1, 'IcmpCode')), ('checksum', ('u16', 2))],
      payload='from:4', set_payload='at:4'),
 dict(mod='icmpv6', name='Icmpv6', prefix='icmp6', min=4,
      fields=[('icmpv6_type', ('nt8', 0, 'Icmpv6Type')), ('icmpv6_code', ('nt8', 1, 'Icmpv6Code')), ('checksum', ('u16', 2))],
      payload='from:4', set_payload='at:4'),
 dict(mod='icmpv6::ndp', name='NeighborSolicit', prefix='ns', min=24,
      fields=[('icmpv6_type', ('nt8', 0, 'crate::pnet::packet::icmpv6::Icmpv6Type')), ('icmpv6_code', ('nt8', 1, 'crate::pnet::packet::icmpv6::Icmpv6Code')),
              ('checksum', ('u16', 2)), ('target_addr', ('ip6', 8))],
      payload=None, set_payload=None, fmt_ok='crate::pnet::packet::icmpv6::ndp::ndp_debug_ok(self@)'),
 dict(mod='icmpv6::ndp', name='NeighborAdvert', prefix='na', min=24,
      fields=[('icmpv6_type', ('nt8', 0, 'crate::pnet::packet::icmpv6::Icmpv6Type')), ('icmpv6_code', ('nt8', 1, 'crate::pnet::packet::icmpv6::Icmpv6Code')),
              ('checksum', ('u16', 2)), ('flags', ('u8', 4)), ('target_addr', ('ip6', 8))],
      payload=None, set_payload=None, fmt_ok='crate::pnet::packet::icmpv6::ndp::ndp_debug_ok(self@)'),
]

NEWTYPES = {
 'ethernet': [('EtherType', 'u16', 'EtherTypes', [('Ipv4', 0x0800), ('Arp', 0x0806), ('Ipv6', 0x86DD)])],
 'arp': [('ArpOperation', 'u16', 'ArpOperations', [('Request', 1), ('Reply', 2)]),
         ('ArpHardwareType', 'u16', 'ArpHardwareTypes', [('Ethernet', 1)])],
 'ip': [('IpNextHeaderProtocol', 'u8', 'IpNextHeaderProtocols', [('Icmp', 1), ('Tcp', 6), ('Udp', 17), ('Icmpv6', 58)])],
 'icmp': [('IcmpType', 'u8', 'IcmpTypes', [('EchoReply', 0), ('EchoRequest', 8)]), ('IcmpCode', 'u8', None, [])],
 'icmpv6': [('Icmpv6Type', 'u8', 'Icmpv6Types', [('EchoRequest', 128), ('EchoReply', 129), ('NeighborSolicit', 135), ('NeighborAdvert', 136)]),
            ('Icmpv6Code', 'u8', None, [])],
}

def ty_of(kind):
    k = kind[0]
    return {'u8': 'u8', 'u16': 'u16', 'u32': 'u32', 'bits8': 'u8', 'tcpflags': 'u16', 'mac': 'crate::pnet::util::MacAddr',
            'ip4': 'std::net::Ipv4Addr', 'ip6': 'std::net::Ipv6Addr'}.get(k) or kind[2]

def spec_get(kind, s='s'):
    k = kind[0]
    if k == 'u8': return '%s[%d]' % (s, kind[1])
    if k == 'u16': return 'be16(%s, %d)' % (s, kind[1])
    if k == 'u32': return 'be32(%s, %d)' % (s, kind[1])
    if k == 'nt8': return '%s[%d]' % (s, kind[1])
    if k == 'nt16': return 'be16(%s, %d)' % (s, kind[1])
    if k == 'bits8': return '((%s[%d] & %d) >> %d)' % (s, kind[1], kind[2], kind[3]) if kind[3] else '(%s[%d] & %d)' % (s, kind[1], kind[2])
    if k == 'tcpflags': return '((%s[12] & 1) as u16 * 256 + %s[13] as u16) as u16' % (s, s)
    if k == 'mac': return 'mac_at(%s, %d)' % (s, kind[1])
    if k == 'ip4': return 'ip4_from(%s.subrange(%d, %d))' % (s, kind[1], kind[1] + 4)
    if k == 'ip6': return 'ip6_from(%s.subrange(%d, %d))' % (s, kind[1], kind[1] + 16)
    raise ValueError(k)

def spec_ret_ty(kind):
    k = kind[0]
    if k in ('nt8',): return 'u8'
    if k in ('nt16',): return 'u16'
    return ty_of(kind)

def spec_set(kind, s, v):
    k = kind[0]
    if k == 'u8': return 'set8(%s, %d, %s)' % (s, kind[1], v)
    if k == 'u16': return 'set16(%s, %d, %s)' % (s, kind[1], v)
    if k == 'u32': return 'set32(%s, %d, %s)' % (s, kind[1], v)
    if k == 'nt8': return 'set8(%s, %d, %s.0)' % (s, kind[1], v)
    if k == 'nt16': return 'set16(%s, %d, %s.0)' % (s, kind[1], v)
    if k == 'bits8':
        inv = 0xff & ~kind[2]
        return 'set8(%s, %d, (%s[%d] & %d) | ((%s << %d) & %d))' % (s, kind[1], s, kind[1], inv, v, kind[3], kind[2])
    if k == 'tcpflags':
        return 'set8(set8(%s, 12, (%s[12] & 0xfe) | (((%s & 0x100) >> 8) as u8)), 13, (%s & 0xff) as u8)' % (s, s, v, v)
    if k == 'mac': return 'set_bytes(%s, %d, mac_bytes(%s))' % (s, kind[1], v)
    if k == 'ip4': return 'set_bytes(%s, %d, ip4_octets(%s))' % (s, kind[1], v)
    if k == 'ip6': return 'set_bytes(%s, %d, ip6_octets(%s))' % (s, kind[1], v)
    raise ValueError(k)

def payload_spec(p):
    pl = p['payload']
    pre = p['prefix']
    if pl is None: return None
    if pl.startswith('from:'):
        n = int(pl[5:])
        return 'if s.len() <= %d { Seq::<u8>::empty() } else { s.subrange(%d, s.len() as int) }' % (n, n)
    if pl == 'arp':
        return 'Seq::<u8>::empty()'
    if pl == 'ipv4':
        return ('{ let start = 20 + ip4_options_length(s); let end = if start + ip4_payload_length(s) < s.len() { start + ip4_payload_length(s) } else { s.len() as int };\n'
                '          if s.len() <= start { Seq::<u8>::empty() } else { s.subrange(start, end) } }')
    if pl == 'ipv6':
        return ('{ let end = if 40 + ip6_payload_length(s) < s.len() { 40 + ip6_payload_length(s) as int } else { s.len() as int };\n'
                '          if s.len() <= 40 { Seq::<u8>::empty() } else { s.subrange(40, end) } }')
    if pl == 'tcp':
        return ('{ let start = 20 + tcp_options_length(s);\n'
                '          if s.len() <= start { Seq::<u8>::empty() } else { s.subrange(start, s.len() as int) } }')
    raise ValueError(pl)

def set_payload_req_ens(p):
    sp = p['set_payload']
    if sp is None: return None
    if sp.startswith('at:'):
        n = int(sp[3:])
        SPEC_LINES.append('pub open spec fn %s_set_payload(s: Seq<u8>, v: Seq<u8>) -> Seq<u8> { set_bytes(s, %d, v) }' % (p['prefix'], n))
        return ('%d + vals@.len() <= old(self)@.len()' % n, '%s_set_payload(old(self)@, vals@)' % p['prefix'])
    if sp == 'ipv4':
        return ('vals@.len() <= ip4_payload_length(old(self)@) && 20 + ip4_options_length(old(self)@) + vals@.len() <= old(self)@.len()',
                'ip4_set_payload(old(self)@, vals@)')
    if sp == 'ipv6':
        return ('vals@.len() <= ip6_payload_length(old(self)@) && 40 + vals@.len() <= old(self)@.len()', 'ip6_set_payload(old(self)@, vals@)')
    if sp == 'tcp':
        return ('20 + tcp_options_length(old(self)@) + vals@.len() <= old(self)@.len()', 'tcp_set_payload(old(self)@, vals@)')
    raise ValueError(sp)

def gen_newtype(name, ity, constmod, consts):
    o = []
    o.append('#[derive(PartialEq, Eq, Clone, Copy)]')
    o.append('pub struct %s(pub %s);' % (name, ity))
    o.append('impl vstd::std_specs::cmp::PartialEqSpecImpl for %s {' % name)
    o.append('    open spec fn obeys_eq_spec() -> bool { true }')
    o.append('    open spec fn eq_spec(&self, other: &%s) -> bool { self.0 == other.0 }' % name)
    o.append('}')
    o.append('impl crate::shim::FmtArg for %s { open spec fn fmt_ok(&self) -> bool { true } }' % name)
    o.append('impl %s { pub fn new(val: %s) -> (r: %s) ensures r.0 == val { %s(val) } }' % (name, ity, name, name))
    if constmod:
        o.append('#[allow(non_snake_case)] #[allow(non_upper_case_globals)]')
        o.append('pub mod %s {' % constmod)
        o.append('    use super::%s;' % name)
        for cn, cv in consts:
            o.append('    pub const %s: %s = %s(%d);' % (cn, name, name, cv))
        o.append('}')
    return o

SPEC_LINES = []
LEMMA_LINES = []
LEMMA_NAMES = []
OPAQUE = {'tcp', 'ip4', 'ip6'}

def spec_arg_ty(kind):
    """type of the value parameter of the named setter spec"""
    k = kind[0]
    if k == 'nt8': return 'u8'
    if k == 'nt16': return 'u16'
    return ty_of(kind)

def setter_val(kind, v):
    return v + '.0' if kind[0] in ('nt8', 'nt16') else v

def spec_set_raw(kind, s, v):
    """byte-level definition of the setter on the raw value"""
    k = kind[0]
    if k in ('u8', 'nt8'): return 'set8(%s, %d, %s)' % (s, kind[1], v)
    if k in ('u16', 'nt16'): return 'set16(%s, %d, %s)' % (s, kind[1], v)
    if k == 'u32': return 'set32(%s, %d, %s)' % (s, kind[1], v)
    return spec_set(kind, s, v)

def get_norm(kind, v):
    """value read back after set(v), and the side condition under which it equals v"""
    k = kind[0]
    if k == 'bits8':
        return ('%s <= %d' % (v, kind[2] >> kind[3]), v)
    if k == 'tcpflags':
        return ('%s < 512' % v, v)
    return (None, v)

def field_bytes(kind):
    k = kind[0]
    if k in ('u8', 'nt8', 'bits8'): return (kind[1], kind[1] + 1)
    if k in ('u16', 'nt16'): return (kind[1], kind[1] + 2)
    if k == 'u32': return (kind[1], kind[1] + 4)
    if k == 'mac': return (kind[1], kind[1] + 6)
    if k == 'ip4': return (kind[1], kind[1] + 4)
    if k == 'ip6': return (kind[1], kind[1] + 16)
    if k == 'tcpflags': return (12, 14)
    raise ValueError(k)

PAYLOAD_BOUND_FIELDS = {'ip4': {'header_length', 'total_length'}, 'ip6': {'payload_length'}, 'tcp': {'data_offset'}}

def gen_lemmas(p):
    name, pre, mn = p['name'], p['prefix'], p['min']
    opq = pre in OPAQUE
    L = LEMMA_LINES
    getters = ['%s_%s' % (pre, f) for f, _ in p['fields']]
    has_payload = payload_spec(p) is not None
    def reveals(extra=()):
        if not opq: return []
        r = ['        reveal(%s);' % g for g in getters] + ['        reveal(%s);' % e for e in extra]
        if has_payload: r.append('        reveal(%s_payload);' % pre)
        return r
    for fname, kind in p['fields']:
        setter = '%s_set_%s' % (pre, fname)
        vt = spec_arg_ty(kind)
        lname = 'lemma_%s' % setter
        LEMMA_NAMES.append(lname)
        cond, back = get_norm(kind, 'v')
        L.append('/*PROVED_IN:u_pnet*/ pub broadcast proof fn %s(s: Seq<u8>, v: %s)' % (lname, vt))
        L.append('    requires s.len() >= %d' % mn)
        L.append('    ensures')
        L.append('        (#[trigger] %s(s, v)).len() == s.len(),' % setter)
        if cond:
            L.append('        %s ==> %s_%s(%s(s, v)) == %s,' % (cond, pre, fname, setter, back))
        else:
            L.append('        %s_%s(%s(s, v)) == %s,' % (pre, fname, setter, back))
        for g, gk in p['fields']:
            if g != fname:
                L.append('        %s_%s(%s(s, v)) == %s_%s(s),' % (pre, g, setter, pre, g))
        L.append('        %s(s, v).subrange(%d, s.len() as int) == s.subrange(%d, s.len() as int),' % (setter, mn, mn))
        if has_payload and fname not in PAYLOAD_BOUND_FIELDS.get(pre, set()):
            L.append('        %s_payload(%s(s, v)) == %s_payload(s),' % (pre, setter, pre))
        if fname == 'checksum':
            L.append('        zero16(%s(s, v), %d) == zero16(s, %d),' % (setter, kind[1], kind[1]))
        L.append('{')
        L += reveals([setter])
        L.append('        let t = %s(s, v);' % setter)
        # bit-level facts for the bytes this setter rewrites partially
        if kind[0] == 'bits8':
            o, m_, sh = kind[1], kind[2], kind[3]
            L.append('        let b = s[%d]; let nb = t[%d];' % (o, o))
            L.append('        assert(nb == (b & %d) | ((v << %d) & %d));' % (0xff & ~m_, sh, m_))
            rd = (lambda e, mk, shf: '((%s) & %d) >> %d' % (e, mk, shf) if shf else '((%s) & %d)' % (e, mk))
            L.append('        assert(v <= %d ==> %s == v) by(bit_vector);' % (m_ >> sh, rd('(b & %d) | ((v << %d) & %d)' % (0xff & ~m_, sh, m_), m_, sh)))
            for g, gk in p['fields']:
                if g != fname and gk[0] == 'bits8' and gk[1] == o:
                    L.append('        assert(%s == %s) by(bit_vector);' % (rd('(b & %d) | ((v << %d) & %d)' % (0xff & ~m_, sh, m_), gk[2], gk[3]), rd('b', gk[2], gk[3])))
                if g != fname and gk[0] == 'tcpflags' and o == 12:
                    L.append('        assert((((b & %d) | ((v << %d) & %d)) & 1) == (b & 1)) by(bit_vector);' % (0xff & ~m_, sh, m_))
        if kind[0] == 'tcpflags':
            L.append('        let b = s[12]; let nb = t[12];')
            L.append('        assert(nb == (b & 0xfe) | (((v & 0x100) >> 8) as u8));')
            L.append('        assert(v < 512 ==> (((b & 0xfe) | (((v & 0x100) >> 8) as u8)) & 1) as u16 * 256 + ((v & 0xff) as u8) as u16 == v) by(bit_vector);')
            L.append('        assert((((b & 0xfe) | (((v & 0x100) >> 8) as u8)) & 0xf0) >> 4 == (b & 0xf0) >> 4) by(bit_vector);')
        if kind[0] == 'u32':
            L.append('        lemma_be32_set32(s, %d, v);' % kind[1])
        if kind[0] in ('u16', 'nt16'):
            L.append('        lemma_be16_set16(s, %d, v);' % kind[1])
        lo, hi = field_bytes(kind)
        for g, gk in p['fields']:
            if g != fname and gk[0] in ('ip4', 'ip6', 'mac'):
                glo, ghi = field_bytes(gk)
                if gk[0] != 'mac':
                    L.append('        assert(t.subrange(%d, %d) =~= s.subrange(%d, %d));' % (glo, ghi, glo, ghi))
        if kind[0] == 'ip4':
            L.append('        assert(t.subrange(%d, %d) =~= ip4_octets(v));' % (lo, hi))
        if kind[0] == 'ip6':
            L.append('        assert(t.subrange(%d, %d) =~= ip6_octets(v));' % (lo, hi))
        L.append('        assert(t.subrange(%d, s.len() as int) =~= s.subrange(%d, s.len() as int));' % (mn, mn))
        if has_payload and fname not in PAYLOAD_BOUND_FIELDS.get(pre, set()) and pre in ('ip4', 'ip6', 'tcp'):
            L.append('        lemma_%s_payload_frame(s, t);' % pre)
        if fname == 'checksum':
            L.append('        assert(zero16(t, %d) =~= zero16(s, %d));' % (kind[1], kind[1]))
        L.append('}')

def gen_packet(p):
    o = []
    name, pre, mn = p['name'], p['prefix'], p['min']
    opq = '#[verifier::opaque] ' if pre in OPAQUE else ''
    # spec functions
    for fname, kind in p['fields']:
        SPEC_LINES.append('%spub open spec fn %s_%s(s: Seq<u8>) -> %s { %s }' % (opq, pre, fname, spec_ret_ty(kind), spec_get(kind)))
        SPEC_LINES.append('%spub open spec fn %s_set_%s(s: Seq<u8>, v: %s) -> Seq<u8> { %s }' % (opq, pre, fname, spec_arg_ty(kind), spec_set_raw(kind, 's', 'v')))
    ps = payload_spec(p)
    if ps:
        SPEC_LINES.append('%spub open spec fn %s_payload(s: Seq<u8>) -> Seq<u8> { %s }' % (opq, pre, ps))
    gen_lemmas(p)
    for mut in (False, True):
        T = ('Mutable' if mut else '') + name + 'Packet'
        o.append('pub struct %s<\'p> { pub bytes: Vec<u8>, pub _p: core::marker::PhantomData<&\'p ()> }' % T)
        o.append("impl<'p> View for %s<'p> { type V = Seq<u8>; open spec fn view(&self) -> Seq<u8> { self.bytes@ } }" % T)
        o.append("impl<'p> crate::shim::FmtArg for %s<'p> { open spec fn fmt_ok(&self) -> bool { %s } }" % (T, p.get('fmt_ok', 'true')))
        o.append("impl<'a> %s<'a> {" % T)
        o.append('    pub open spec fn wf(&self) -> bool { self@.len() >= %d }' % mn)
        if not mut:
            o.append("    #[verifier::external_body] pub fn new<'p>(packet: &'p [u8]) -> (r: Option<%s<'p>>)" % T)
            o.append('        ensures r.is_some() == (packet@.len() >= %d), r.is_some() ==> r.unwrap()@ == packet@ && r.unwrap().wf() { unimplemented!() }' % mn)
        o.append("    #[verifier::external_body] pub fn owned(packet: Vec<u8>) -> (r: Option<%s<'static>>)" % T)
        o.append('        ensures r.is_some() == (packet@.len() >= %d), r.is_some() ==> r.unwrap()@ == packet@ && r.unwrap().wf() { unimplemented!() }' % mn)
        o.append("    #[verifier::external_body] pub fn to_immutable<'p>(&'p self) -> (r: %sPacket<'p>)" % name)
        o.append('        ensures r@ == self@, r.wf() == self.wf() { unimplemented!() }')
        o.append('    #[verifier::external_body] pub const fn minimum_packet_size() -> (r: usize) ensures r == %d { %d }' % (mn, mn))
        o.append("    #[verifier::external_body] pub fn packet<'p>(&'p self) -> (r: &'p [u8]) ensures r@ == self@ { unimplemented!() }")
        if ps:
            o.append("    #[verifier::external_body] pub fn payload<'p>(&'p self) -> (r: &'p [u8]) requires self.wf() ensures r@ == %s_payload(self@) { unimplemented!() }" % pre)
        if pre == 'ip4':
            o.append("    #[verifier::external_body] pub fn get_options_raw<'p>(&'p self) -> (r: &'p [u8]) requires self.wf() ensures r@ == ip4_options_raw(self@) { unimplemented!() }")
        for fname, kind in p['fields']:
            if (pre, fname) in SPEC_ONLY: continue
            ty = ty_of(kind)
            if kind[0] in ('nt8', 'nt16'):
                ens = 'r.0 == %s_%s(self@)' % (pre, fname)
            else:
                ens = 'r == %s_%s(self@)' % (pre, fname)
            o.append('    #[verifier::external_body] pub fn get_%s(&self) -> (r: %s) requires self.wf() ensures %s { unimplemented!() }' % (fname, ty, ens))
        if mut:
            for fname, kind in p['fields']:
                if (pre, fname) in SPEC_ONLY: continue
                ty = ty_of(kind)
                o.append('    #[verifier::external_body] pub fn set_%s(&mut self, val: %s) requires old(self).wf()' % (fname, ty))
                o.append('        ensures final(self)@ == %s_set_%s(old(self)@, %s), final(self).wf() { unimplemented!() }' % (pre, fname, setter_val(kind, 'val')))
            sp = set_payload_req_ens(p)
            if sp:
                o.append('    #[verifier::external_body] pub fn set_payload(&mut self, vals: &[u8]) requires old(self).wf(), %s' % sp[0])
                o.append('        ensures final(self)@ == %s, final(self).wf() { unimplemented!() }' % sp[1])
        o.append('}')
    return o

SPEC_EXTRA = r'''
pub open spec fn ip4_set_payload(s: Seq<u8>, v: Seq<u8>) -> Seq<u8> { set_bytes(s, 20 + ip4_options_length(s), v) }
pub open spec fn ip6_set_payload(s: Seq<u8>, v: Seq<u8>) -> Seq<u8> { set_bytes(s, 40, v) }
pub open spec fn tcp_set_payload(s: Seq<u8>, v: Seq<u8>) -> Seq<u8> { set_bytes(s, 20 + tcp_options_length(s), v) }
/// IPv4 fragment offset (13 bits) -- spec only, pnet setter not used by masscanned
pub open spec fn ip4_fragment_offset(s: Seq<u8>) -> int { ip4_frag_hi(s) as int * 256 + ip4_frag_lo(s) as int }
pub open spec fn zero_header(s: Seq<u8>, n: int) -> bool { s.len() >= n && forall|i: int| 0 <= i < n ==> s[i] == 0 }
'''

LEMMA_EXTRA = r'''
pub proof fn lemma_ip4_payload_frame(s: Seq<u8>, t: Seq<u8>)
    requires s.len() >= 20, t.len() == s.len(), ip4_header_length(t) == ip4_header_length(s), ip4_total_length(t) == ip4_total_length(s),
             t.subrange(20, s.len() as int) == s.subrange(20, s.len() as int)
    ensures ip4_payload(t) == ip4_payload(s)
{
    reveal(ip4_payload);
    let start = 20 + ip4_options_length(s);
    let end = if start + ip4_payload_length(s) < s.len() { start + ip4_payload_length(s) } else { s.len() as int };
    if s.len() > start {
        assert(start >= 20 && start <= end <= s.len());
        assert forall|i: int| 0 <= i < end - start implies t.subrange(start, end)[i] == s.subrange(start, end)[i] by {
            let a = t.subrange(20, s.len() as int); let b = s.subrange(20, s.len() as int);
            assert(a == b);
            assert(a[start + i - 20] == t[start + i]);
            assert(b[start + i - 20] == s[start + i]);
        }
        assert(t.subrange(start, end) =~= s.subrange(start, end));
    }
}
pub proof fn lemma_ip6_payload_frame(s: Seq<u8>, t: Seq<u8>)
    requires s.len() >= 40, t.len() == s.len(), ip6_payload_length(t) == ip6_payload_length(s),
             t.subrange(40, s.len() as int) == s.subrange(40, s.len() as int)
    ensures ip6_payload(t) == ip6_payload(s)
{
    reveal(ip6_payload);
    let end = if 40 + ip6_payload_length(s) < s.len() { 40 + ip6_payload_length(s) as int } else { s.len() as int };
    if s.len() > 40 {
        assert forall|i: int| 0 <= i < end - 40 implies t.subrange(40, end)[i] == s.subrange(40, end)[i] by {
            assert(t.subrange(40, s.len() as int)[i] == s.subrange(40, s.len() as int)[i]);
        }
        assert(t.subrange(40, end) =~= s.subrange(40, end));
    }
}
pub proof fn lemma_tcp_payload_frame(s: Seq<u8>, t: Seq<u8>)
    requires s.len() >= 20, t.len() == s.len(), tcp_data_offset(t) == tcp_data_offset(s),
             t.subrange(20, s.len() as int) == s.subrange(20, s.len() as int)
    ensures tcp_payload(t) == tcp_payload(s)
{
    reveal(tcp_payload);
    let start = 20 + tcp_options_length(s);
    if s.len() > start {
        assert(start >= 20);
        assert forall|i: int| 0 <= i < s.len() - start implies t.subrange(start, s.len() as int)[i] == s.subrange(start, s.len() as int)[i] by {
            let a = t.subrange(20, s.len() as int); let b = s.subrange(20, s.len() as int);
            assert(a == b);
            assert(a[start + i - 20] == t[start + i]);
            assert(b[start + i - 20] == s[start + i]);
        }
        assert(t.subrange(start, s.len() as int) =~= s.subrange(start, s.len() as int));
    }
}
/*PROVED_IN:u_pnet*/ pub broadcast proof fn lemma_ip4_set_payload(s: Seq<u8>, v: Seq<u8>)
    requires s.len() == 20 + v.len(), ip4_header_length(s) == 5, ip4_total_length(s) as int == s.len()
    ensures (#[trigger] ip4_set_payload(s, v)).len() == s.len(),
        ip4_set_payload(s, v).subrange(0, 20) == s.subrange(0, 20),
        ip4_set_payload(s, v) == s.subrange(0, 20) + v,
        ip4_payload(ip4_set_payload(s, v)) == v,
        IP4_FIELDS_PRESERVED
{
    IP4_REVEALS
    let t = ip4_set_payload(s, v);
    assert(t.subrange(0, 20) =~= s.subrange(0, 20));
    assert(t =~= s.subrange(0, 20) + v);
    assert(t.subrange(12, 16) =~= s.subrange(12, 16));
    assert(t.subrange(16, 20) =~= s.subrange(16, 20));
    assert(t.subrange(20, t.len() as int) =~= v);
}
/*PROVED_IN:u_pnet*/ pub broadcast proof fn lemma_ip6_set_payload(s: Seq<u8>, v: Seq<u8>)
    requires s.len() == 40 + v.len(), ip6_payload_length(s) as int == v.len()
    ensures (#[trigger] ip6_set_payload(s, v)).len() == s.len(),
        ip6_set_payload(s, v).subrange(0, 40) == s.subrange(0, 40),
        ip6_set_payload(s, v) == s.subrange(0, 40) + v,
        ip6_payload(ip6_set_payload(s, v)) == v,
        IP6_FIELDS_PRESERVED
{
    IP6_REVEALS
    let t = ip6_set_payload(s, v);
    assert(t.subrange(0, 40) =~= s.subrange(0, 40));
    assert(t =~= s.subrange(0, 40) + v);
    assert(t.subrange(8, 24) =~= s.subrange(8, 24));
    assert(t.subrange(24, 40) =~= s.subrange(24, 40));
    assert(t.subrange(40, t.len() as int) =~= v);
}
/*PROVED_IN:u_pnet*/ pub broadcast proof fn lemma_eth_set_payload(s: Seq<u8>, v: Seq<u8>)
    requires s.len() == 14 + v.len()
    ensures (#[trigger] eth_set_payload(s, v)).len() == s.len(),
        eth_set_payload(s, v) == s.subrange(0, 14) + v,
        eth_payload(eth_set_payload(s, v)) == v,
        eth_destination(eth_set_payload(s, v)) == eth_destination(s),
        eth_source(eth_set_payload(s, v)) == eth_source(s),
        eth_ethertype(eth_set_payload(s, v)) == eth_ethertype(s),
{
    let t = eth_set_payload(s, v);
    assert(t =~= s.subrange(0, 14) + v);
    assert(t.subrange(14, t.len() as int) =~= v);
}
/// payload of a TCP segment without options is everything after the 20-byte header
/*PROVED_IN:u_pnet*/ pub broadcast proof fn lemma_tcp_payload_simple(s: Seq<u8>)
    requires s.len() >= 20, tcp_data_offset(s) <= 5
    ensures #[trigger] tcp_payload(s) == s.subrange(20, s.len() as int)
{
    reveal(tcp_payload);
    assert(s.subrange(20, s.len() as int) =~= tcp_payload(s));
}
/*PROVED_IN:u_pnet*/ pub broadcast proof fn lemma_tcp_payload_len(s: Seq<u8>)
    requires s.len() >= 20
    ensures (#[trigger] tcp_payload(s)).len() <= s.len() - 20
{ reveal(tcp_payload); }
/*PROVED_IN:u_pnet*/ pub broadcast proof fn lemma_ip4_payload_len(s: Seq<u8>)
    requires s.len() >= 20
    ensures (#[trigger] ip4_payload(s)).len() <= s.len() - 20
{ reveal(ip4_payload); }
/*PROVED_IN:u_pnet*/ pub broadcast proof fn lemma_ip6_payload_len(s: Seq<u8>)
    requires s.len() >= 40
    ensures (#[trigger] ip6_payload(s)).len() <= s.len() - 40
{ reveal(ip6_payload); }
/// header fields of an all-zero header
pub proof fn lemma_tcp_zero_header(s: Seq<u8>)
    requires zero_header(s, 20)
    ensures tcp_data_offset(s) == 0, tcp_flags(s) == 0, tcp_source(s) == 0, tcp_destination(s) == 0, tcp_sequence(s) == 0,
            tcp_acknowledgement(s) == 0, tcp_window(s) == 0, tcp_checksum(s) == 0, tcp_urgent_ptr(s) == 0
{
    TCP_REVEALS
    assert((0u8 & 0xf0) >> 4 == 0) by(bit_vector);
    assert((0u8 & 1) == 0) by(bit_vector);
}
pub proof fn lemma_ip4_zero_header(s: Seq<u8>)
    requires zero_header(s, 20)
    ensures ip4_version(s) == 0, ip4_header_length(s) == 0, ip4_dscp(s) == 0, ip4_ecn(s) == 0, ip4_total_length(s) == 0,
            ip4_identification(s) == 0, ip4_flags(s) == 0, ip4_ttl(s) == 0, ip4_next_level_protocol(s) == 0, ip4_checksum(s) == 0,
            ip4_frag_hi(s) == 0, ip4_frag_lo(s) == 0
{
    IP4_REVEALS
    assert((0u8 & 0xf0) >> 4 == 0 && (0u8 & 0x0f) == 0 && (0u8 & 0xfc) >> 2 == 0 && (0u8 & 0x03) == 0 && (0u8 & 0xe0) >> 5 == 0 && (0u8 & 0x1f) == 0) by(bit_vector);
}
pub proof fn lemma_ip6_zero_header(s: Seq<u8>)
    requires zero_header(s, 40)
    ensures ip6_version(s) == 0, ip6_payload_length(s) == 0, ip6_next_header(s) == 0, ip6_hop_limit(s) == 0
{
    IP6_REVEALS
    assert((0u8 & 0xf0) >> 4 == 0) by(bit_vector);
}
/// the IPv4 header checksum does not depend on the value stored in the checksum field
pub broadcast proof fn lemma_ip4_hdr_ck_independent(s: Seq<u8>, v: u16)
    requires s.len() >= 20
    ensures inet_ck(Seq::<u8>::empty(), ip4_hdr_for_ck(#[trigger] ip4_set_checksum(s, v)), 5) == inet_ck(Seq::<u8>::empty(), ip4_hdr_for_ck(s), 5)
{
    lemma_ip4_set_checksum(s, v);
    reveal(ip4_set_checksum);
    let t = ip4_set_checksum(s, v);
    assert(zero16(ip4_hdr_for_ck(t), 10) =~= zero16(ip4_hdr_for_ck(s), 10));
}
/// writing back the value a 16-bit field already holds changes nothing (UDP length after the checksum, ipv4.rs)
pub broadcast proof fn lemma_udp_set_length_same(s: Seq<u8>, v: u16)
    requires s.len() >= 8, v == udp_length(s)
    ensures #[trigger] udp_set_length(s, v) == s
{
    assert(udp_set_length(s, v) =~= s);
}
'''

HAND_WRITTEN = {
'util': r'''
pub mod util {
    use vstd::prelude::*;
    #[derive(PartialEq, Eq, Clone, Copy, Hash)]
    pub struct MacAddr(pub u8, pub u8, pub u8, pub u8, pub u8, pub u8);
    impl vstd::std_specs::cmp::PartialEqSpecImpl for MacAddr {
        open spec fn obeys_eq_spec() -> bool { true }
        open spec fn eq_spec(&self, other: &MacAddr) -> bool { *self == *other }
    }
    impl crate::shim::FmtArg for MacAddr { open spec fn fmt_ok(&self) -> bool { true } }
    pub open spec fn mac_bytes(m: MacAddr) -> Seq<u8> { seq![m.0, m.1, m.2, m.3, m.4, m.5] }
    pub open spec fn mac_at(s: Seq<u8>, o: int) -> MacAddr { MacAddr(s[o], s[o + 1], s[o + 2], s[o + 3], s[o + 4], s[o + 5]) }
    impl MacAddr {
        pub fn new(a: u8, b: u8, c: u8, d: u8, e: u8, f: u8) -> (r: MacAddr) ensures r == MacAddr(a, b, c, d, e, f) { MacAddr(a, b, c, d, e, f) }
        pub fn broadcast() -> (r: MacAddr) ensures r == MacAddr(0xff, 0xff, 0xff, 0xff, 0xff, 0xff) { MacAddr(0xff, 0xff, 0xff, 0xff, 0xff, 0xff) }
        pub fn zero() -> (r: MacAddr) ensures r == MacAddr(0, 0, 0, 0, 0, 0) { MacAddr(0, 0, 0, 0, 0, 0) }
        // predicates of pnet_base 0.33 MacAddr (not used by the unchanged tree; modelled so that an edit using them is decided)
        pub fn is_zero(&self) -> (r: bool) ensures r == (*self == MacAddr(0, 0, 0, 0, 0, 0)) { self.0 == 0 && self.1 == 0 && self.2 == 0 && self.3 == 0 && self.4 == 0 && self.5 == 0 }
        pub fn is_broadcast(&self) -> (r: bool) ensures r == (*self == MacAddr(0xff, 0xff, 0xff, 0xff, 0xff, 0xff)) { self.0 == 0xff && self.1 == 0xff && self.2 == 0xff && self.3 == 0xff && self.4 == 0xff && self.5 == 0xff }
        pub fn is_multicast(&self) -> (r: bool) ensures r == (self.0 & 1 == 1) { self.0 & 1 == 1 }
        pub fn is_unicast(&self) -> (r: bool) ensures r == !(self.0 & 1 == 1) { !(self.0 & 1 == 1) }
        pub fn is_local(&self) -> (r: bool) ensures r == (self.0 & 2 == 2) { self.0 & 2 == 2 }
        pub fn is_universal(&self) -> (r: bool) ensures r == !(self.0 & 2 == 2) { !(self.0 & 2 == 2) }
        pub fn octets(&self) -> (r: [u8; 6]) ensures r@ == seq![self.0, self.1, self.2, self.3, self.4, self.5] { [self.0, self.1, self.2, self.3, self.4, self.5] }
    }
    impl vstd::std_specs::convert::FromSpecImpl<[u8; 6]> for MacAddr {
        open spec fn obeys_from_spec() -> bool { true }
        open spec fn from_spec(a: [u8; 6]) -> MacAddr { MacAddr(a[0], a[1], a[2], a[3], a[4], a[5]) }
    }
    impl From<[u8; 6]> for MacAddr {
        fn from(a: [u8; 6]) -> (r: MacAddr) { MacAddr(a[0], a[1], a[2], a[3], a[4], a[5]) }
    }
    impl vstd::std_specs::convert::FromSpecImpl<MacAddr> for [u8; 6] {
        open spec fn obeys_from_spec() -> bool { true }
        open spec fn from_spec(m: MacAddr) -> [u8; 6] { [m.0, m.1, m.2, m.3, m.4, m.5] }
    }
    impl From<MacAddr> for [u8; 6] {
        fn from(m: MacAddr) -> (r: [u8; 6]) { [m.0, m.1, m.2, m.3, m.4, m.5] }
    }
    /// pnet's derived `Hash`/`Eq` of MacAddr are lawful (trusted).
    #[verifier::external_body]
    pub broadcast proof fn axiom_macaddr_key_model()
        ensures #[trigger] vstd::std_specs::hash::obeys_key_model::<MacAddr>() {}
}
pub mod datalink {
    pub struct NetworkInterface { pub index: u32 }
}
''',
}

CHECKSUMS = r'''
// ---- checksum routines (pnet_packet::util).  `inet_ck` is the RFC 1071 checksum of `pseudo ++ data`
// with the 16-bit word at word index `skipword` of `data` left out; it is uninterpreted here (its
// arithmetic is pnet's and is validated bounded by Kani), which is all the layer contracts need:
// they state *which bytes and which pseudo-header* the transmitted checksum was computed over.
pub mod cksum {
    use vstd::prelude::*;
    use crate::shim::*;
    pub open spec fn zero16(s: Seq<u8>, o: int) -> Seq<u8> {
        if 0 <= o && o + 1 < s.len() { s.update(o, 0u8).update(o + 1, 0u8) } else if 0 <= o < s.len() { s.update(o, 0u8) } else { s }
    }
    pub uninterp spec fn inet_ck_raw(pseudo: Seq<u8>, data: Seq<u8>) -> u16;
    /// checksum over pseudo ++ data where the word `skipword` of data counts as zero
    pub open spec fn inet_ck(pseudo: Seq<u8>, data: Seq<u8>, skipword: int) -> u16 {
        inet_ck_raw(pseudo, zero16(data, 2 * skipword))
    }
    pub open spec fn pseudo4(src: Seq<u8>, dst: Seq<u8>, proto: u8, len: int) -> Seq<u8> {
        src + dst + seq![0u8, proto, ((len / 256) % 256) as u8, (len % 256) as u8]
    }
    pub open spec fn pseudo6(src: Seq<u8>, dst: Seq<u8>, proto: u8, len: int) -> Seq<u8> {
        src + dst + seq![((len / 16777216) % 256) as u8, ((len / 65536) % 256) as u8, ((len / 256) % 256) as u8, (len % 256) as u8, 0u8, 0u8, 0u8, proto]
    }
    /// the ones'-complement sum is commutative over 16-bit words: exchanging the (even-length) source and
    /// destination blocks of a pseudo-header leaves the checksum unchanged (trusted; validated bounded by Kani)
    #[verifier::external_body]
    pub broadcast proof fn axiom_pseudo6_swap(a: Seq<u8>, b: Seq<u8>, proto: u8, len: int, data: Seq<u8>)
        requires a.len() == 16, b.len() == 16
        ensures #[trigger] inet_ck_raw(pseudo6(a, b, proto, len), data) == inet_ck_raw(pseudo6(b, a, proto, len), data) {}
    /// UDP over IPv6: a computed checksum of zero is transmitted as 0xFFFF (RFC 8200 8.1)
    pub open spec fn nonzero_ck(c: u16) -> u16 { if c == 0 { 0xFFFFu16 } else { c } }
}
'''

def main():
    out = []
    A = out.append
    A('// GENERATED by tools/gen_pnet_shim.py -- do not edit.  Verus axioms for pnet 0.33.0 (trusted; validated by kani/pnet_axioms).')
    A('pub mod pnet {')
    A(HAND_WRITTEN['util'])
    A(CHECKSUMS)
    A('pub mod packet {')
    A('    pub trait Packet {}')
    A('    pub trait MutablePacket {}')
    # group by module
    mods = {}
    for p in PACKETS:
        mods.setdefault(p['mod'], []).append(p)
    def body_of(modname):
        o = ['use vstd::prelude::*;', 'use crate::shim::*;', 'use crate::pnet::util::*;', 'use crate::pnet::pspec::*;', 'use crate::pnet::cksum::*;']
        top = modname.split('::')[-1] if '::' in modname else modname
        for nt in NEWTYPES.get(modname, []):
            o += gen_newtype(*nt)
        for p in mods.get(modname, []):
            o += gen_packet(p)
        ex = EXTRA.get(modname, [])
        k = 0
        while k < len(ex):
            l = ex[k]
            if l.startswith('pub open spec fn '):
                # multi-line spec fn: up to the line that is exactly '}' or single-line ending with '}'
                blk = [l]
                if not l.rstrip().endswith('}'):
                    k += 1
                    while ex[k].strip() != '}':
                        blk.append(ex[k]); k += 1
                    blk.append(ex[k])
                SPEC_LINES.extend(blk)
            else:
                o.append(l)
            k += 1
        return o
    order = ['ethernet', 'arp', 'ip', 'ipv4', 'ipv6', 'tcp', 'udp', 'icmp']
    for mname in order:
        A('pub mod %s {' % mname)
        for l in body_of(mname): A('    ' + l)
        A('}')
    A('pub mod icmpv6 {')
    for l in body_of('icmpv6'): A('    ' + l)
    A('    pub mod ndp {')
    for l in body_of('icmpv6::ndp'): A('        ' + l)
    A('    }')
    A('}')
    A('} // packet')
    A('pub mod pspec {')
    A('    use vstd::prelude::*; use crate::shim::*; use crate::pnet::util::*;')
    for l in SPEC_LINES: A('    ' + l)
    for l in SPEC_EXTRA.strip('\n').split('\n'): A('    ' + l)
    A('}')
    A('} // pnet')
    path = os.path.join(VERIF, 'shim', 'pnet.rs')
    open(path, 'w').write('\n'.join(out) + '\n')
    print('wrote', path, len(out), 'lines')
    # ---- lemma file: field algebra of the byte-level axioms, PROVED by Verus in unit u_pnet and used as
    # (external_body) broadcast facts in every other unit
    byp = {p['prefix']: p for p in PACKETS}
    def preserved(pre, setter):
        return ',\n        '.join('%s_%s(%s) == %s_%s(s)' % (pre, f, setter, pre, f) for f, _ in byp[pre]['fields']) + ','
    def reveals(pre):
        r = ['reveal(%s_%s);' % (pre, f) for f, _ in byp[pre]['fields']] + ['reveal(%s_set_%s);' % (pre, f) for f, _ in byp[pre]['fields']]
        if payload_spec(byp[pre]): r.append('reveal(%s_payload);' % pre)
        return ' '.join(r)
    extra = LEMMA_EXTRA
    extra = extra.replace('IP4_FIELDS_PRESERVED', preserved('ip4', 'ip4_set_payload(s, v)'))
    extra = extra.replace('IP6_FIELDS_PRESERVED', preserved('ip6', 'ip6_set_payload(s, v)'))
    for pre in ('ip4', 'ip6', 'tcp'):
        extra = extra.replace(pre.upper() + '_REVEALS', reveals(pre))
    import re as _re
    extra = _re.sub(r'(?m)^pub (broadcast )?proof fn', lambda m: '/*PROVED_IN:u_pnet*/ ' + m.group(0), extra)
    names = LEMMA_NAMES + _re.findall(r'pub broadcast proof fn (\w+)', extra)
    L = ['// GENERATED by tools/gen_pnet_shim.py -- do not edit.  Field algebra of the pnet byte-level axioms.',
         '// Every lemma here is PROVED by Verus in unit u_pnet; other units include the statements only.',
         'pub mod pnet_lemmas {',
         '    use vstd::prelude::*; use crate::shim::*; use crate::pnet::util::*; use crate::pnet::pspec::*; use crate::pnet::cksum::*;',
         '    broadcast use crate::shim::group_ip_axioms;']
    for l in extra.strip('\n').split('\n'): L.append('    ' + l)
    for l in LEMMA_LINES: L.append('    ' + l)
    L.append('    pub broadcast group group_pnet_fields {')
    L.append('        ' + ', '.join(names))
    L.append('    }')
    L.append('}')
    path = os.path.join(VERIF, 'shim', 'pnet_lemmas.rs')
    open(path, 'w').write('\n'.join(L) + '\n')
    print('wrote', path, len(L), 'lines', len(names), 'broadcast lemmas')

EXTRA = {
 'ipv4': r'''
pub open spec fn ip4_options_length(s: Seq<u8>) -> int { if ip4_header_length(s) as int * 4 >= 20 { ip4_header_length(s) as int * 4 - 20 } else { 0 } }
/// the raw option bytes: from offset 20 to the end of the header (IHL), clipped to the buffer
pub open spec fn ip4_options_raw(s: Seq<u8>) -> Seq<u8> {
    let end = if 20 + ip4_options_length(s) < s.len() { 20 + ip4_options_length(s) } else { s.len() as int };
    s.subrange(20, end)
}
pub open spec fn ip4_payload_length(s: Seq<u8>) -> int { if ip4_total_length(s) as int >= ip4_header_length(s) as int * 4 { ip4_total_length(s) as int - ip4_header_length(s) as int * 4 } else { 0 } }
pub open spec fn ip4_hdr_for_ck(s: Seq<u8>) -> Seq<u8> {
    let hl = ip4_header_length(s) as int * 4;
    let n = if hl < 20 { 20 } else if hl > s.len() { s.len() as int } else { hl };
    s.subrange(0, n)
}
#[allow(non_snake_case)] #[allow(non_upper_case_globals)]
pub mod Ipv4Flags { pub const DontFragment: u8 = 2; pub const MoreFragments: u8 = 1; }
#[verifier::external_body] pub fn checksum(packet: &Ipv4Packet) -> (r: u16) requires packet.wf()
    ensures r == inet_ck(Seq::<u8>::empty(), ip4_hdr_for_ck(packet@), 5) { unimplemented!() }
'''.strip('\n').split('\n'),
 'tcp': r'''
pub open spec fn tcp_options_length(s: Seq<u8>) -> int { if tcp_data_offset(s) > 5 { tcp_data_offset(s) as int * 4 - 20 } else { 0 } }
#[allow(non_snake_case)] #[allow(non_upper_case_globals)]
pub mod TcpFlags {
    pub const NS: u16 = 256; pub const CWR: u16 = 128; pub const ECE: u16 = 64; pub const URG: u16 = 32;
    pub const ACK: u16 = 16; pub const PSH: u16 = 8; pub const RST: u16 = 4; pub const SYN: u16 = 2; pub const FIN: u16 = 1;
}
#[verifier::external_body] pub fn ipv4_checksum(packet: &TcpPacket, source: &std::net::Ipv4Addr, destination: &std::net::Ipv4Addr) -> (r: u16) requires packet.wf()
    ensures r == inet_ck(pseudo4(ip4_octets(*source), ip4_octets(*destination), 6, packet@.len() as int), packet@, 8) { unimplemented!() }
#[verifier::external_body] pub fn ipv6_checksum(packet: &TcpPacket, source: &std::net::Ipv6Addr, destination: &std::net::Ipv6Addr) -> (r: u16) requires packet.wf()
    ensures r == inet_ck(pseudo6(ip6_octets(*source), ip6_octets(*destination), 6, packet@.len() as int), packet@, 8) { unimplemented!() }
'''.strip('\n').split('\n'),
 'udp': r'''
#[verifier::external_body] pub fn ipv4_checksum(packet: &UdpPacket, source: &std::net::Ipv4Addr, destination: &std::net::Ipv4Addr) -> (r: u16) requires packet.wf()
    ensures r == inet_ck(pseudo4(ip4_octets(*source), ip4_octets(*destination), 17, packet@.len() as int), packet@, 3) { unimplemented!() }
#[verifier::external_body] pub fn ipv6_checksum(packet: &UdpPacket, source: &std::net::Ipv6Addr, destination: &std::net::Ipv6Addr) -> (r: u16) requires packet.wf()
    ensures r == inet_ck(pseudo6(ip6_octets(*source), ip6_octets(*destination), 17, packet@.len() as int), packet@, 3) { unimplemented!() }
'''.strip('\n').split('\n'),
 'icmp': r'''
#[verifier::external_body] pub fn checksum(packet: &IcmpPacket) -> (r: u16) requires packet.wf()
    ensures r == inet_ck(Seq::<u8>::empty(), packet@, 1) { unimplemented!() }
'''.strip('\n').split('\n'),
 'icmpv6': r'''
pub struct Icmpv6 { pub icmpv6_type: Icmpv6Type, pub icmpv6_code: Icmpv6Code, pub checksum: u16, pub payload: Vec<u8> }
impl<'a> Icmpv6Packet<'a> {
    pub fn packet_size(_packet: &Icmpv6) -> (r: usize) requires _packet.payload@.len() < 0x7fff_ffff ensures r == 4 + _packet.payload@.len() { 4 + _packet.payload.len() }
}
impl<'a> MutableIcmpv6Packet<'a> {
    #[verifier::external_body] pub fn populate(&mut self, packet: &Icmpv6) requires old(self).wf(), 4 + packet.payload@.len() <= old(self)@.len()
        ensures final(self)@ == set_bytes(set16(set8(set8(old(self)@, 0, packet.icmpv6_type.0), 1, packet.icmpv6_code.0), 2, packet.checksum), 4, packet.payload@), final(self).wf() { unimplemented!() }
}
#[verifier::external_body] pub fn checksum(packet: &Icmpv6Packet, source: &std::net::Ipv6Addr, destination: &std::net::Ipv6Addr) -> (r: u16) requires packet.wf()
    ensures r == inet_ck(pseudo6(ip6_octets(*source), ip6_octets(*destination), 58, packet@.len() as int), packet@, 1) { unimplemented!() }
'''.strip('\n').split('\n'),
 'icmpv6::ndp': r'''
use crate::pnet::packet::icmpv6::{Icmpv6Type, Icmpv6Code};
#[allow(non_snake_case)] #[allow(non_upper_case_globals)]
pub mod Icmpv6Codes { use crate::pnet::packet::icmpv6::Icmpv6Code; pub const NoCode: Icmpv6Code = Icmpv6Code(0); }
#[derive(PartialEq, Eq, Clone, Copy)]
pub struct NdpOptionType(pub u8);
#[allow(non_snake_case)] #[allow(non_upper_case_globals)]
pub mod NdpOptionTypes { use super::NdpOptionType; pub const SourceLLAddr: NdpOptionType = NdpOptionType(1); pub const TargetLLAddr: NdpOptionType = NdpOptionType(2); }
#[allow(non_snake_case)] #[allow(non_upper_case_globals)]
pub mod NeighborAdvertFlags { pub const Router: u8 = 0x80; pub const Solicited: u8 = 0x40; pub const Override: u8 = 0x20; }
pub struct NdpOption { pub option_type: NdpOptionType, pub length: u8, pub data: Vec<u8> }
pub struct NdpOptionPacket<'p> { pub bytes: Vec<u8>, pub _p: core::marker::PhantomData<&'p ()> }
impl<'a> NdpOptionPacket<'a> {
    pub fn packet_size(_packet: &NdpOption) -> (r: usize) requires _packet.data@.len() < 0x7fff_ffff ensures r == 2 + _packet.data@.len() { 2 + _packet.data.len() }
}
pub struct NeighborAdvert { pub icmpv6_type: Icmpv6Type, pub icmpv6_code: Icmpv6Code, pub checksum: u16, pub flags: u8, pub reserved: u32,
    pub target_addr: std::net::Ipv6Addr, pub options: Vec<NdpOption>, pub payload: Vec<u8> }
/// Condition under which pnet's generated `Debug` of an NDP packet does not overflow in
/// `ndp_option_payload_length` (`(len * 8) - 2` evaluated in u8): every option length byte < 32.
/// Uninterpreted except for the one shape masscanned itself builds (one option, length byte 1).
pub uninterp spec fn ndp_debug_ok(s: Seq<u8>) -> bool;
#[verifier::external_body]
pub broadcast proof fn axiom_ndp_debug_single_option(s: Seq<u8>)
    requires s.len() == 32, s[25] == 1
    ensures #[trigger] ndp_debug_ok(s) {}
impl<'a> MutableNeighborAdvertPacket<'a> {
    pub fn packet_size(_packet: &NeighborAdvert) -> (r: usize) requires _packet.options@.len() == 0, _packet.payload@.len() == 0 ensures r == 24 { 24 }
    /// axiom stated only for the shape used by masscanned: no options, no payload in the struct
    #[verifier::external_body] pub fn populate(&mut self, packet: &NeighborAdvert)
        requires old(self).wf(), packet.options@.len() == 0, packet.payload@.len() == 0
        ensures final(self)@ == set_bytes(set32(set16(set8(set8(old(self)@, 0, packet.icmpv6_type.0), 1, packet.icmpv6_code.0), 2, packet.checksum), 4,
                    (packet.flags as u32 * 16777216 + packet.reserved % 16777216) as u32), 8, ip6_octets(packet.target_addr)), final(self).wf() { unimplemented!() }
    /// axiom stated only for a single option whose data fills `length * 8 - 2` bytes
    #[verifier::external_body] pub fn set_options(&mut self, vals: &[NdpOption])
        requires old(self).wf(), vals@.len() == 1, 1 <= vals@[0].length < 32, vals@[0].data@.len() == vals@[0].length as int * 8 - 2,
                 24 + 2 + vals@[0].data@.len() <= old(self)@.len()
        ensures final(self)@ == set_bytes(set8(set8(old(self)@, 24, vals@[0].option_type.0), 25, vals@[0].length), 26, vals@[0].data@), final(self).wf() { unimplemented!() }
}
'''.strip('\n').split('\n'),
}

LOG_LAYERS = [('arp', 'Arp', False), ('eth', 'Ethernet', True), ('ipv4', 'Ipv4', True), ('ipv6', 'Ipv6', True),
              ('icmpv4', 'Icmp', True), ('icmpv6', 'Icmpv6', True), ('tcp', 'Tcp', True), ('udp', 'Udp', True)]
PKT_MOD = {'Arp': 'arp', 'Ethernet': 'ethernet', 'Ipv4': 'ipv4', 'Ipv6': 'ipv6', 'Icmp': 'icmp', 'Icmpv6': 'icmpv6', 'Tcp': 'tcp', 'Udp': 'udp'}

def gen_world():
    o = []
    A = o.append
    A('// GENERATED by tools/gen_pnet_shim.py -- do not edit.  World state (rule R4) and the MetaLogger shim (trusted).')
    A('use crate::pnet::util::MacAddr; use crate::pnet::datalink::NetworkInterface; use std::collections::HashSet; use std::net::IpAddr; use crate::logger::MetaLogger;')
    A('#[derive(PartialEq, Eq, Clone, Copy)]')
    A('pub enum Layer { Arp, Eth, Ipv4, Ipv6, Icmpv4, Icmpv6, Tcp, Udp }')
    A('#[derive(PartialEq, Eq, Clone, Copy)]')
    A('pub enum Verb { Recv, Drop, Send }')
    A('/// one event of the event log: which layer, which verb, the bytes of the packet that was logged and the')
    A('/// client information handed to the logger (None for ARP, whose logger methods take no ClientInfo)')
    A('pub ghost struct Ev { pub layer: Layer, pub verb: Verb, pub pkt: Seq<u8>, pub ci: Option<crate::client::ClientInfo> }')
    A('pub struct World {')
    A('    pub contable: std::collections::HashMap<u32, crate::proto::tcb::TCPControlBlock>,')
    A('    pub events: Ghost<Seq<Ev>>,')
    A('}')
    A('impl World {')
    A('    pub open spec fn table(&self) -> Map<u32, crate::proto::tcb::TCPControlBlock> { self.contable@ }')
    A('    pub open spec fn ev(&self) -> Seq<Ev> { self.events@ }')
    A('    /// rule R5: the body of proto::get_tcb, `f(CONTABLE.lock().unwrap().get_mut(&cookie))`, with the table as state')
    A('    #[verifier::external_body]')
    A('    pub fn table_get_mut(&mut self, c: u32) -> (r: Option<&mut crate::proto::tcb::TCPControlBlock>)')
    A('        ensures r.is_some() == old(self).table().dom().contains(c),')
    A('            r.is_some() ==> *r.unwrap() == old(self).table()[c],')
    A('            r.is_some() ==> final(self).table() == old(self).table().insert(c, *final(r.unwrap())),')
    A('            r.is_none() ==> final(self).contable == old(self).contable,')
    A('            final(self).ev() == old(self).ev(),')
    A('    { self.contable.get_mut(&c) }')
    A('}')
    A('pub mod logger {')
    A('    use vstd::prelude::*;')
    A('    use crate::{World, Ev, Layer, Verb};')
    A('    use crate::client::ClientInfo;')
    A('    pub struct MetaLogger { pub n: usize }')
    A('    impl MetaLogger {')
    for lname, pk, has_ci in LOG_LAYERS:
        layer = {'arp': 'Arp', 'eth': 'Eth', 'ipv4': 'Ipv4', 'ipv6': 'Ipv6', 'icmpv4': 'Icmpv4', 'icmpv6': 'Icmpv6', 'tcp': 'Tcp', 'udp': 'Udp'}[lname]
        for verb, V in (('recv', 'Recv'), ('drop', 'Drop'), ('send', 'Send')):
            T = 'crate::pnet::packet::%s::%s%sPacket' % (PKT_MOD[pk], 'Mutable' if verb == 'send' else '', pk)
            ci_param = ', c: &ClientInfo' if has_ci else ''
            ci_val = 'Some(*c)' if has_ci else 'None'
            A('        #[verifier::external_body] pub fn %s_%s(&self, p: &%s%s, w: &mut World)' % (lname, verb, T, ci_param))
            A('            ensures final(w).contable == old(w).contable,')
            A('                    final(w).ev() == old(w).ev().push(Ev { layer: Layer::%s, verb: Verb::%s, pkt: p@, ci: %s }) { unimplemented!() }' % (layer, V, ci_val))
    A('    }')
    A('}')
    path = os.path.join(VERIF, 'shim', 'world.rs')
    open(path, 'w').write('\n'.join(o) + '\n')
    print('wrote', path)

if __name__ == '__main__':
    main()
    gen_world()
