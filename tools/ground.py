"""Ground obligations (closed formulas about compiled constants / the real binary) and witness replay.

Everything here runs the binary rebuilt from /repo's current working tree with the verification hook
enabled.  Results are reported under the back end name "ground"; they are executions, not SMT proofs.
"""
import os, sys, json, struct, socket, time
import replay as R

VERIF = os.path.dirname(os.path.dirname(os.path.abspath(__file__)))

def _known():
    return json.load(open(os.path.join(VERIF, 'known_findings.json')))

# ----------------------------------------------------------------------------- individual obligations
def g_init_smack(repo):
    """C01: both automaton initialisers (proto_init, http_init) terminate without panic; they take no input."""
    d = R.Driver(repo)
    try:
        r = d.cmd('init-smack')
    finally:
        d.close()
    return r == 'ok', {'obligation': 'ground/init-smack', 'result': r}

COLLISION = dict(src='10.0.1.0', dst='10.0.0.1', sport_a=24967, sport_b=37581, dport=80)

def g_cookie_collision(repo):
    """Known finding (C07/C08): with the constant key [0,0] two distinct flows share a cookie.  Returns
    (reproduces, info)."""
    c = COLLISION
    d = R.Driver(repo)
    try:
        d.cfg(mac=R.MAC)
        ca = d.cookie(c['src'], c['dst'], c['sport_a'], c['dport'])
        cb = d.cookie(c['src'], c['dst'], c['sport_b'], c['dport'])
        info = {'flow_a': '%s:%d->%s:%d' % (c['src'], c['sport_a'], c['dst'], c['dport']),
                'flow_b': '%s:%d->%s:%d' % (c['src'], c['sport_b'], c['dst'], c['dport']), 'cookie_a': ca, 'cookie_b': cb}
        if ca != cb:
            return False, info
        # interference scenario: B's PSH|ACK with a wrong ack is silent before, answered after A's valid data
        def seg(sport, ack, payload):
            return R.eth(R.MAC, R.PEER, 0x0800, R.ip4(c['src'], c['dst'], 6, R.tcp(sport, c['dport'], 1000, ack, R.PSH | R.ACK, payload)))
        d.reset()
        before = d.frame(seg(c['sport_b'], 12345, b'\r\n'))
        a = d.frame(seg(c['sport_a'], (ca + 1) & 0xffffffff, b'GET / HTTP/1.1\r\n'))
        after = d.frame(seg(c['sport_b'], 12345, b'\r\n'))
        info.update(before=before[0], flow_a_reply=a[0], after=after[0], after_len=(len(after[1]) if after[1] else 0))
        return (before[0] == 'none' and after[0] == 'reply'), info
    finally:
        d.close()

# ----------------------------------------------------------------------------- per-property driver
def run(pid, tier, repo, build, seed):
    res = {'obligations': 0, 'discharged': 0, 'violations': [], 'undecided': [], 'details': []}
    try:
        R.build(repo)
    except R.BuildError as e:
        res['undecided'].append('hook binary does not build: ' + str(e)[-400:])
        return res
    def add(ok, info, name, tags_desc, as_violation=True):
        res['obligations'] += 1
        res['details'].append(info)
        if ok:
            res['discharged'] += 1
        elif as_violation:
            res['violations'].append({'obligation': name, 'unit': 'ground', 'fn': name, 'kind': 'ground', 'message': tags_desc,
                                      'tags': [pid], 'clause': tags_desc, 'clause_at': None, 'site': None, 'site_text': json.dumps(info),
                                      'spans': [], 'rendered': json.dumps(info, indent=1), 'witness': info})
    try:
        if pid == 'C01':
            ok, info = g_init_smack(repo)
            add(ok, info, 'ground/init-smack', 'proto_init()/http_init() complete without panic')
        if pid in ('C07', 'C08'):
            rep, info = g_cookie_collision(repo)
            # the obligation "distinct flows have distinct cookies" is FALSE when the witness reproduces
            add(not rep, dict(info, obligation='ground/A_inj/cookie-collision'), 'ground/A_inj/cookie-collision',
                'A_inj: no two live flows share a cookie (witness: %s vs %s)' % (info.get('flow_a'), info.get('flow_b')))
    except Exception as e:
        res['undecided'].append('ground check crashed: %r' % e)
    return res

def find_witness(pid, failure, repo, build):
    if failure.get('witness'):
        return {'witness': failure['witness']}
    return None

def replay(pid, path, repo, build):
    rec = json.load(open(path))
    w = rec.get('witness')
    if not w:
        print('replay file carries no concrete input (obligation %s); verifier output:\n%s' % (rec.get('obligation'), rec.get('verifier_output')))
        return 2
    if rec.get('obligation') == 'ground/A_inj/cookie-collision':
        rep, info = g_cookie_collision(repo)
        print(json.dumps(info, indent=1))
        print('REPRODUCED' if rep else 'not reproduced')
        return 1 if rep else 0
    print(json.dumps(w, indent=1))
    return 2
