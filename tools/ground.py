"""Ground obligations (closed formulas about compiled constants / the real binary) and witness replay.

Everything here runs the binary rebuilt from /repo's current working tree with the verification hook
enabled.  Results are reported under the back end name "ground"; they are executions, not SMT proofs.
"""
import os, sys, json, struct, socket, time
import replay as R

VERIF = os.path.dirname(os.path.dirname(os.path.abspath(__file__)))

def _known():
    return json.load(open(os.path.join(VERIF, 'known_findings.json')))

# ----------------------------------------------------------------------------- individual obligations
def g_init_smack(repo):
    """C01: both automaton initialisers (proto_init, http_init) terminate without panic; they take no input."""
    d = R.Driver(repo)
    try:
        r = d.cmd('init-smack')
    finally:
        d.close()
    return r == 'ok', {'obligation': 'ground/init-smack', 'result': r}

COLLISION = dict(src='10.0.1.0', dst='10.0.0.1', sport_a=24967, sport_b=37581, dport=80)

def g_cookie_collision(repo):
    """Known finding (C07/C08): with the constant key [0,0] two distinct flows share a cookie.  Returns
    (reproduces, info)."""
    c = COLLISION
    d = R.Driver(repo)
    try:
        d.cfg(mac=R.MAC)
        ca = d.cookie(c['src'], c['dst'], c['sport_a'], c['dport'])
        cb = d.cookie(c['src'], c['dst'], c['sport_b'], c['dport'])
        info = {'flow_a': '%s:%d->%s:%d' % (c['src'], c['sport_a'], c['dst'], c['dport']),
                'flow_b': '%s:%d->%s:%d' % (c['src'], c['sport_b'], c['dst'], c['dport']), 'cookie_a': ca, 'cookie_b': cb}
        if ca != cb:
            return False, info
        # interference scenario: B's PSH|ACK with a wrong ack is silent before, answered after A's valid data
        def seg(sport, ack, payload):
            return R.eth(R.MAC, R.PEER, 0x0800, R.ip4(c['src'], c['dst'], 6, R.tcp(sport, c['dport'], 1000, ack, R.PSH | R.ACK, payload)))
        d.reset()
        before = d.frame(seg(c['sport_b'], 12345, b'\r\n'))
        a = d.frame(seg(c['sport_a'], (ca + 1) & 0xffffffff, b'GET / HTTP/1.1\r\n'))
        after = d.frame(seg(c['sport_b'], 12345, b'\r\n'))
        info.update(before=before[0], flow_a_reply=a[0], after=after[0], after_len=(len(after[1]) if after[1] else 0))
        return (before[0] == 'none' and after[0] == 'reply'), info
    finally:
        d.close()

def g_c11_prefix(repo):
    """C11 dispatcher obligation: the parser is shown every byte of the flow.  Known finding: a segment that ends
    before the signature completes is consumed by the matcher only; the HTTP parser never sees it."""
    stream = b'GET / HTTP/1.1\r\n\r\n'
    def run(cuts):
        d = R.Driver(repo)
        try:
            d.cfg(mac=R.MAC)
            src, dst, sp, dp = '10.0.0.2', '10.0.0.1', 40100, 80
            c = d.cookie(src, dst, sp, dp)
            seq = 1000; out = []
            for seg in cuts:
                r = d.frame(R.eth(R.MAC, R.PEER, 0x0800, R.ip4(src, dst, 6, R.tcp(sp, dp, seq, (c + 1) & 0xffffffff, R.PSH | R.ACK, seg))))
                seq += len(seg)
                out.append(len(r[1]) - 54 if r[0] == 'reply' else None)
            return out
        finally:
            d.close()
    one = run([stream]); late = run([stream[:8], stream[8:]]); early = run([stream[:2], stream[2:]])
    info = {'obligation': 'ground/C11/identification-prefix-not-fed', 'one_segment_payload_len': one, 'cut_after_8': late, 'cut_after_2': early}
    same = (one[-1] or 0) > 0 and (late[-1] or 0) == one[-1] and (early[-1] or 0) == one[-1]
    return same, info


# ----------------------------------------------------------------------------- C16: portmapper body (bounded stand-in)
def xdr_str(b):
    return struct.pack('!I', len(b)) + b + b'\0' * ((4 - len(b) % 4) % 4)

def portmap_expected(xid, vers, proc, ip, port, prog=100000):
    """The reply the statement of C16 asks for, written from the statement (RFC 5531 accept_stat values:
    SUCCESS 0, PROG_UNAVAIL 1, PROG_MISMATCH 2, PROC_UNAVAIL 3; RFC 1833 GETPORT/GETADDR/DUMP bodies)."""
    hdr = struct.pack('!IIIII', xid, 1, 0, 0, 0)
    if not (2 <= vers <= 4):
        return hdr + struct.pack('!III', 2, 2, 4)
    if proc == 0:
        return hdr + struct.pack('!I', 0)
    if prog != 100000:
        return hdr + struct.pack('!I', 1)
    v6 = ':' in ip
    canon = socket.inet_ntop(socket.AF_INET6, socket.inet_pton(socket.AF_INET6, ip)) if v6 else ip
    uaddr = ('%s.%d.%d' % (canon, port >> 8, port & 0xff)).encode()
    netid = b'tcp6' if v6 else b'tcp'
    if proc == 3:
        return hdr + struct.pack('!I', 0) + (struct.pack('!I', port) if vers == 2 else xdr_str(uaddr))
    if proc == 4:
        body = b''
        for k in (2, 3, 4):
            body += struct.pack('!III', 1, 100000, k)
            body += struct.pack('!II', 6, port) if vers == 2 else xdr_str(netid) + xdr_str(uaddr) + xdr_str(b'superuser')
        return hdr + struct.pack('!I', 0) + body + struct.pack('!I', 0)
    return hdr + struct.pack('!I', 3)

C16_IPS = ['10.0.0.1', '192.168.255.254', '2001:db8::1', 'fe80::c2ff:eeff:fec0:ffee']
C16_PORTS = [111, 1, 255, 256, 2049, 32768, 65535]

def g_c16_portmap(repo, thorough=False):
    """BOUNDED stand-in for the assumed contract of rpc::build_repl_portmap (String/format!/str matching, outside
    the verifier's subset): the portmapper replies of the real binary over UDP are compared with the reply the
    statement asks for, for versions 1..5 x procedures {0,1,3,4,5} x 4 addresses x 5 (thorough: 7) ports, and all
    procedure numbers 0..13 and 255 on the first port.
    Returns [(ok, info)]."""
    out = []
    d = R.Driver(repo)
    try:
        d.cfg(mac=R.MAC)
        ports = C16_PORTS if thorough else C16_PORTS[:5]
        for ip in C16_IPS:
            v6 = ':' in ip
            src = '2001:db8::99' if v6 else '10.0.0.99'
            for port in ports:
                for vers in (1, 2, 3, 4, 5):
                    # every procedure number of portmapper v2 / rpcbind v3, v4 (0..12) and two beyond
                    for proc in ((0, 1, 2, 3, 4, 5, 6, 7, 8, 9, 10, 11, 12, 13, 255) if (port == ports[0]) else (0, 1, 3, 4, 5)):
                        xid = 0x11220000 | (vers << 8) | proc
                        call = struct.pack('!IIIIIIIIII', xid, 0, 2, 100000, vers, proc, 0, 0, 0, 0)
                        dg = R.udp(40000, port, call)
                        fr = R.eth(R.MAC, R.PEER, 0x86dd if v6 else 0x0800, R.ip6(src, ip, 17, dg) if v6 else R.ip4(src, ip, 17, dg))
                        r = d.frame(fr)
                        got = None
                        if r[0] == 'reply':
                            off = 14 + (40 if v6 else 20) + 8
                            got = r[1][off:]
                        exp = portmap_expected(xid, vers, proc, ip, port)
                        name = 'ground/C16/portmap/v%d/proc%d' % (vers, proc)
                        if got != exp:
                            out.append((False, {'obligation': name, 'dst_ip': ip, 'dst_port': port, 'version': vers,
                                                'procedure': proc, 'frame_hex': fr.hex(), 'expected_payload_hex': exp.hex(),
                                                'got_payload_hex': got.hex() if got is not None else r[0]}))
                        else:
                            out.append((True, {'obligation': name}))
        # the same over TCP (first call of a validated flow): record mark with the last-fragment bit and a length equal to
        # the reply that follows; a long IPv6 address makes the DUMP reply longer than 255 bytes
        k = 0
        for ip in C16_IPS + ['2001:db8:aaaa:bbbb:cccc:dddd:eeee:ffff']:
            v6 = ':' in ip
            src = '2001:db8::99' if v6 else '10.0.0.99'
            for vers in (2, 3, 4):
                for proc in (0, 3, 4, 9):
                    k += 1
                    sport = 42000 + k; port = 111
                    xid = 0x33440000 | (vers << 8) | proc
                    call = struct.pack('!IIIIIIIIII', xid, 0, 2, 100000, vers, proc, 0, 0, 0, 0)
                    rec = struct.pack('!I', 0x80000000 | len(call)) + call
                    ck = d.cookie(src, ip, sport, port)
                    seg = R.tcp(sport, port, 1000, (ck + 1) & 0xffffffff, R.PSH | R.ACK, rec)
                    fr = R.eth(R.MAC, R.PEER, 0x86dd if v6 else 0x0800, R.ip6(src, ip, 6, seg) if v6 else R.ip4(src, ip, 6, seg))
                    r = d.frame(fr)
                    got = None
                    if r[0] == 'reply':
                        got = r[1][14 + (40 if v6 else 20) + 20:]
                    body = portmap_expected(xid, vers, proc, ip, port)
                    exp = struct.pack('!I', 0x80000000 | len(body)) + body
                    name = 'ground/C16/portmap-tcp/v%d/proc%d' % (vers, proc)
                    if got != exp:
                        out.append((False, {'obligation': name, 'dst_ip': ip, 'dst_port': port, 'version': vers, 'procedure': proc, 'transport': 'tcp',
                                            'frame_hex': fr.hex(), 'expected_payload_hex': exp.hex(), 'got_payload_hex': got.hex() if got is not None else r[0]}))
                    else:
                        out.append((True, {'obligation': name}))
    finally:
        d.close()
    return out


# ----------------------------------------------------------------------------- C20: real loggers (bounded stand-in)
import re as _re
LOGFMT_RX = _re.compile(r'^ts=\d+\.\d+ proto=(arp|eth|ipv4|ipv6|icmpv4|icmpv6|tcp|udp) verb=(recv|send|drop)((?: +[a-z_0-9]+=[^ =\t]+)*) *$')
CONSOLE_RX = _re.compile(r'^\d+\.\d+\t(arp|eth|ipv4|ipv6|icmpv4|icmpv6|tcp|udp)\t(recv|send|drop)\t([^\n]*)$')

def c20_corpus():
    """(name, frame, facts) -- facts: mac_src, mac_dst, ip_src, ip_dst, port_src, port_dst where the frame has them"""
    E, I4, I6, U, T = R.eth, R.ip4, R.ip6, R.udp, R.tcp
    me4, me6, peer4, peer6 = '10.0.0.1', '2001:db8::1', '10.0.0.2', '2001:db8::2'
    other4 = '10.9.9.9'
    def f4(l4, proto, dst=me4, src=peer4, dmac=R.MAC): return E(dmac, R.PEER, 0x0800, I4(src, dst, proto, l4))
    def f6(l4, nh, dst=me6, src=peer6, dmac=R.MAC): return E(dmac, R.PEER, 0x86dd, I6(src, dst, nh, l4))
    def icmp6(t, c, rest, src=peer6, dst=me6):
        body = struct.pack('!BBH', t, c, 0) + rest
        ph = socket.inet_pton(socket.AF_INET6, src) + socket.inet_pton(socket.AF_INET6, dst) + struct.pack('!IHBB', len(body), 0, 0, 58)
        ck = R.csum(ph + body)
        return body[:2] + struct.pack('!H', ck) + body[4:]
    c = []
    A = lambda name, fr, **facts: c.append((name, fr, facts))
    A('arp-request', E('ff:ff:ff:ff:ff:ff', R.PEER, 0x0806, R.arp(1, R.PEER, peer4, '00:00:00:00:00:00', me4)))
    A('arp-reply', E(R.MAC, R.PEER, 0x0806, R.arp(2, R.PEER, peer4, R.MAC, me4)))
    A('arp-other-ip', E('ff:ff:ff:ff:ff:ff', R.PEER, 0x0806, R.arp(1, R.PEER, peer4, '00:00:00:00:00:00', other4)))
    A('eth-wrong-mac', f4(R.icmp(8, 0, b'\0\1\0\1abcd'), 1, dmac='02:aa:aa:aa:aa:aa'))
    A('eth-unknown-type', E(R.MAC, R.PEER, 0x88cc, b'\0' * 30))
    A('eth-short', (R.mac(R.MAC) + R.mac(R.PEER))[:10])
    A('ip4-short', E(R.MAC, R.PEER, 0x0800, b'\x45\0\0\x14'))
    A('ip4-other-dst', f4(R.icmp(8, 0, b'\0\1\0\1abcd'), 1, dst=other4), ip_src=peer4, ip_dst=other4)
    A('ip4-denied-src', f4(R.icmp(8, 0, b'\0\1\0\1abcd'), 1, src='10.6.6.6'), ip_src='10.6.6.6', ip_dst=me4)
    A('ip4-unknown-proto', f4(b'\0' * 12, 47), ip_src=peer4, ip_dst=me4)
    A('icmp4-echo', f4(R.icmp(8, 0, b'\0\1\0\1abcdefgh'), 1), ip_src=peer4, ip_dst=me4)
    A('icmp4-reply', f4(R.icmp(0, 0, b'\0\1\0\1abcd'), 1), ip_src=peer4, ip_dst=me4)
    A('icmp4-short', f4(b'\x08', 1), ip_src=peer4, ip_dst=me4)
    A('tcp4-syn', f4(T(40000, 80, 7, 0, 0x02), 6), ip_src=peer4, ip_dst=me4, port_src=40000, port_dst=80)
    A('tcp4-synack', f4(T(40000, 80, 7, 1, 0x12), 6), ip_src=peer4, ip_dst=me4, port_src=40000, port_dst=80)
    A('tcp4-ack', f4(T(40000, 80, 7, 1, 0x10), 6), ip_src=peer4, ip_dst=me4, port_src=40000, port_dst=80)
    A('tcp4-rst', f4(T(40000, 80, 7, 1, 0x04), 6), ip_src=peer4, ip_dst=me4, port_src=40000, port_dst=80)
    A('tcp4-fin-ack', f4(T(40000, 80, 7, 1, 0x11), 6), ip_src=peer4, ip_dst=me4, port_src=40000, port_dst=80)
    A('tcp4-data-bad-cookie', f4(T(40001, 80, 7, 12345, 0x18, b'GET / HTTP/1.1\r\n\r\n'), 6), ip_src=peer4, ip_dst=me4, port_src=40001, port_dst=80)
    A('tcp4-data-good-cookie', ('cookie', peer4, me4, 40002, 80, b'GET / HTTP/1.1\r\n\r\n'), ip_src=peer4, ip_dst=me4, port_src=40002, port_dst=80)
    A('tcp4-short', f4(b'\0' * 10, 6), ip_src=peer4, ip_dst=me4)
    A('udp4-junk', f4(U(40000, 9999, b'hello'), 17), ip_src=peer4, ip_dst=me4, port_src=40000, port_dst=9999)
    A('udp4-dns', f4(U(40000, 53, bytes.fromhex('123401000001000000000000016100') + b'\0\1\0\1'), 17), ip_src=peer4, ip_dst=me4, port_src=40000, port_dst=53)
    A('udp4-stun', f4(U(40000, 3478, bytes.fromhex('000100002112a442') + b'0123456789ab'), 17), ip_src=peer4, ip_dst=me4, port_src=40000, port_dst=3478)
    A('udp4-short', f4(b'\0' * 5, 17), ip_src=peer4, ip_dst=me4)
    A('ip6-short', E(R.MAC, R.PEER, 0x86dd, b'\x60\0\0\0'))
    A('icmp6-echo', f6(icmp6(128, 0, b'\0\1\0\1abcd'), 58), ip_src=peer6, ip_dst=me6)
    A('icmp6-echo-code1', f6(icmp6(128, 1, b'\0\1\0\1abcd'), 58), ip_src=peer6, ip_dst=me6)
    A('icmp6-ns', f6(icmp6(135, 0, b'\0\0\0\0' + socket.inet_pton(socket.AF_INET6, me6) + b'\x01\x01' + R.mac(R.PEER)), 58), ip_src=peer6, ip_dst=me6)
    A('icmp6-ns-short', f6(icmp6(135, 0, b'\0\0\0\0abcd'), 58), ip_src=peer6, ip_dst=me6)
    A('icmp6-na', f6(icmp6(136, 0, b'\0\0\0\0' + socket.inet_pton(socket.AF_INET6, me6)), 58), ip_src=peer6, ip_dst=me6)
    A('tcp6-syn', f6(T(40000, 22, 7, 0, 0x02), 6), ip_src=peer6, ip_dst=me6, port_src=40000, port_dst=22)
    A('udp6-junk', f6(U(40000, 9999, b'hello'), 17), ip_src=peer6, ip_dst=me6, port_src=40000, port_dst=9999)
    A('ip6-other-dst', f6(U(40000, 9999, b'hello'), 17, dst='2001:db8::77'), ip_src=peer6, ip_dst='2001:db8::77')
    A('ip6-unknown-nh', f6(b'\0' * 16, 43), ip_src=peer6, ip_dst=me6)
    return c

def g_c20_lines(repo):
    """BOUNDED stand-in for the parts of C20 that are not under contract (the real ConsoleLogger / LogfmtLogger and
    the MetaLogger forwarding): a corpus of frames over every layer and drop reason is run through the hook
    binary with each real logger attached; per frame the printed lines must (a) each be one complete line of the
    format, (b) be well nested recv ... (send|drop) per layer from Ethernet inwards, exactly one of each per
    layer reached, (c) end in `eth send` exactly when a reply frame is emitted, (d) print the frame's own
    addresses and ports (logfmt keys).  Returns [(ok, info)]."""
    out = []
    for fmt, rx in (('logfmt', LOGFMT_RX), ('console', CONSOLE_RX)):
        d = R.Driver(repo)
        try:
            d.cfg(mac=R.MAC, self='10.0.0.1,2001:db8::1', deny='10.6.6.6', log=fmt)
            d.take_log()
            for name, fr, facts in c20_corpus():
                if isinstance(fr, tuple):
                    _, src, dst, sp, dp, payload = fr
                    ck = d.cookie(src, dst, sp, dp)
                    fr = R.eth(R.MAC, R.PEER, 0x0800, R.ip4(src, dst, 6, R.tcp(sp, dp, 7, (ck + 1) & 0xffffffff, 0x18, payload)))
                    d.take_log()
                r = d.frame(fr)
                lines = d.take_log()
                bad = []
                evs = []
                for l in lines:
                    mo = rx.match(l)
                    if not mo:
                        bad.append('not a complete %s line: %r' % (fmt, l)); continue
                    evs.append((mo.group(1), mo.group(2), mo.group(3)))
                stack = []
                seen = set()
                for proto, verb, rest in evs:
                    if verb == 'recv':
                        if proto in seen: bad.append('second recv for layer %s' % proto)
                        seen.add(proto); stack.append(proto)
                    else:
                        if not stack or stack[-1] != proto: bad.append('%s %s without matching recv (open: %s)' % (proto, verb, stack))
                        else: stack.pop()
                if stack: bad.append('layers without terminal event: %s' % stack)
                if len(fr) >= 14:
                    if not evs or evs[0][:2] != ('eth', 'recv'): bad.append('first event is not eth recv')
                    term = evs[-1][:2] if evs else None
                    if r[0] == 'reply' and term != ('eth', 'send'): bad.append('reply emitted but last event is %s' % (term,))
                    if r[0] != 'reply' and term == ('eth', 'send'): bad.append('eth send logged but no reply emitted')
                if r[0] == 'panic': bad.append('panic: %s' % r[1])
                if fmt == 'logfmt':
                    # every line of every layer prints the addresses of the frame it is about: the request for recv/drop
                    # (and, through the client record, for the send events of the IP and transport layers), the reply for
                    # `arp send`; keys: mac_src/mac_dst/ip_src/ip_dst
                    import witness as W_
                    macs = lambda b: ':'.join('%02x' % x for x in b)
                    q_ = W_.decode(fr) or {}
                    a_ = W_.decode(r[1]) if r[0] == 'reply' else None
                    for proto, verb, rest in evs:
                        try: kv = dict(x.split('=', 1) for x in rest.split())
                        except ValueError: continue
                        want = {}
                        if proto == 'arp':
                            pk = a_ if verb == 'send' else q_
                            if pk and pk.get('l3') == 'arp':
                                want = {'mac_src': macs(pk['sha']), 'mac_dst': macs(pk['tha']), 'ip_src': socket.inet_ntoa(pk['spa']), 'ip_dst': socket.inet_ntoa(pk['tpa'])}
                        elif 'eth_src' in q_:
                            want = {'mac_src': macs(q_['eth_src']), 'mac_dst': macs(q_['eth_dst'])}
                        for k, v in want.items():
                            if k in kv and kv[k] != v:
                                bad.append('%s %s prints %s=%s, the frame has %s' % (proto, verb, k, kv[k], v))
                if fmt == 'console':
                    # console lines are positional: peer MAC, own/destination MAC, peer IP, destination IP, .. - the peer first for
                    # every verb (ARP lines: sender/target of the request, target/sender of the reply)
                    import witness as W_
                    macs = lambda b: ':'.join('%02x' % x for x in b)
                    q_ = W_.decode(fr) or {}
                    a_ = W_.decode(r[1]) if r[0] == 'reply' else None
                    for proto, verb, rest in evs:
                        cols = rest.split('\t')
                        want = []
                        if proto == 'arp':
                            pk = a_ if verb == 'send' else q_
                            if pk and pk.get('l3') == 'arp':
                                want = [macs(pk['sha']), macs(pk['tha']), socket.inet_ntoa(pk['spa']), socket.inet_ntoa(pk['tpa'])]
                                if verb == 'send': want = [want[1], want[0], want[3], want[2]]
                        elif 'eth_src' in q_:
                            want = [macs(q_['eth_src']), macs(q_['eth_dst'])]
                        for k, v in enumerate(want):
                            if k < len(cols) and cols[k] != '' and cols[k] != v:
                                bad.append('%s %s prints %s in column %d, the frame has %s' % (proto, verb, cols[k], k + 1, v))
                if fmt == 'logfmt' and facts:
                    for proto, verb, rest in evs:
                        if verb != 'recv' or proto in ('eth', 'arp'): continue
                        kv = dict(x.split('=', 1) for x in rest.split())
                        want = {'ip_src': facts.get('ip_src'), 'ip_dst': facts.get('ip_dst')}
                        if proto in ('tcp', 'udp'):
                            want.update(port_src=str(facts.get('port_src')), port_dst=str(facts.get('port_dst')))
                        for k, v in want.items():
                            if v is not None and v != 'None' and kv.get(k) != v:
                                bad.append('%s recv prints %s=%s, frame has %s' % (proto, k, kv.get(k), v))
                name_ = 'ground/C20/lines/%s/%s' % (fmt, name)
                info = {'obligation': name_, 'frame_hex': fr.hex(), 'reply': r[0], 'lines': lines}
                if bad: info['violated'] = bad
                out.append((not bad, info))
        finally:
            d.close()
    return out


# ----------------------------------------------------------------------------- C16/C11/C12: ONC-RPC over TCP, more than one segment per flow
def _rpc_tcp_session(repo, segments, sport):
    """one TCP flow to port 111 carrying the given data segments; returns the application payload of each reply ('' = bare ACK)"""
    d = R.Driver(repo)
    try:
        d.cfg(mac=R.MAC)
        src, dst, dp = '10.0.0.2', '10.0.0.1', 111
        c = d.cookie(src, dst, sport, dp)
        seq = 1000; out = []
        for p_ in segments:
            r = d.frame(R.eth(R.MAC, R.PEER, 0x0800, R.ip4(src, dst, 6, R.tcp(sport, dp, seq, (c + 1) & 0xffffffff, R.PSH | R.ACK, p_))))
            seq += len(p_)
            out.append(r[1][54:].hex() if r[0] == 'reply' else None)
        return out
    finally:
        d.close()

def _rpc_record(body):
    return struct.pack('!I', 0x80000000 | len(body)) + body

def g_rpc_tcp_second_call(repo):
    """C16 (and C12): every call on a flow is answered with ITS xid; a reply-typed record is not answered.
    Known finding: the per-flow parser state is never reset after the first call completes, so every later
    segment on the flow re-sends the first reply."""
    call1 = _rpc_record(struct.pack('!IIIIIIIIII', 0x11223344, 0, 2, 100000, 2, 0, 0, 0, 0, 0))
    call2 = _rpc_record(struct.pack('!IIIIIIIIII', 0x55667788, 0, 2, 100000, 2, 0, 0, 0, 0, 0))
    rmsg = _rpc_record(struct.pack('!IIIIII', 0x99aabbcc, 1, 0, 0, 0, 0))
    a = _rpc_tcp_session(repo, [call1, call2], 40200)
    b = _rpc_tcp_session(repo, [call1, rmsg], 40201)
    info = {'obligation': 'ground/C16/tcp-second-call-xid', 'two_calls_replies': a, 'call_then_reply_typed_record': b}
    ok = bool(a[0]) and a[0][8:16] == '11223344' and bool(a[1]) and a[1][8:16] == '55667788' and not b[1]
    return ok, info

def g_rpc_tcp_args_cut(repo):
    """C11 for ONC-RPC: a GETPORT call (40-byte header + 16 argument bytes) is answered once, by the segment that
    completes the record, however it is cut.  Known finding: the reply is sent as soon as the call header is
    complete and every later segment re-sends it."""
    body = struct.pack('!IIIIIIIIII', 0x11223344, 0, 2, 100000, 2, 3, 0, 0, 0, 0) + struct.pack('!IIII', 100003, 3, 6, 0)
    rec = _rpc_record(body)
    one = _rpc_tcp_session(repo, [rec], 40210)
    cut = _rpc_tcp_session(repo, [rec[:44], rec[44:]], 40211)
    info = {'obligation': 'ground/C11/rpc-args-cut', 'one_segment': one, 'cut_after_header': cut}
    ok = bool(one[0]) and not cut[0] and cut[1] == one[0]
    return ok, info


# ----------------------------------------------------------------------------- C14: DNS end to end (bounded stand-in)
def dns_expected(q, dst_ip):
    """the response the statement of C14 asks for, or None (not answered); q = (id, opcode, rd, [(name_bytes, qtype, qclass)], extra_tail)"""
    qid, opcode, rd, qs, tail = q
    if tail or not qs or any(t != 1 or c != 1 for _, t, c in qs):
        return None
    flags = 0x8000 | (opcode << 11) | 0x0400 | (rd << 8)
    out = struct.pack('!HHHHHH', qid, flags, len(qs), len(qs), 0, 0)
    for name, t, c in qs:
        out += name + struct.pack('!HH', t, c)
    for name, t, c in qs:
        out += name + struct.pack('!HHIH', 1, 1, 43200, 4) + socket.inet_aton(dst_ip)
    return out

def dns_query_bytes(q, truncate=0):
    qid, opcode, rd, qs, tail = q
    b = struct.pack('!HHHHHH', qid, (opcode << 11) | (rd << 8), len(qs), 0, 0, 0)
    for name, t, c in qs:
        b += name + struct.pack('!HH', t, c)
    b += tail
    return b[:len(b) - truncate] if truncate else b

def g_c14_label_zero(repo):
    """C14 (defect repaired in eb22b78, kept as an obligation): names are label sequences, so an IN/A query one of whose
    labels holds a zero byte (here: one label of length 1 holding 00) is answered like any other.  Before the repair the
    name dissector ended a name at its first zero byte and this query got no answer."""
    q = (0x1234, 0, 1, [(b'\x01\x00\x00', 1, 1)], b'')
    payload = dns_query_bytes(q)
    want = dns_expected(q, '10.0.0.1')
    d = R.Driver(repo)
    try:
        d.cfg(mac=R.MAC)
        r = d.frame(R.eth(R.MAC, R.PEER, 0x0800, R.ip4('10.0.0.77', '10.0.0.1', 17, R.udp(40000, 53, payload))))
    finally:
        d.close()
    got = r[1][42:] if r[0] == 'reply' else None
    return got == want, {'obligation': 'ground/C14/label-with-zero-byte', 'query_hex': payload.hex(), 'expected_hex': want.hex(),
                         'outcome': r[0], 'got_hex': got.hex() if got else None}

def g_c14_dns(repo, n, seed):
    """BOUNDED stand-in for the end-to-end clauses of C14 that the contracts do not reach yet (every IN/A-only query IS
    answered; question section echoed byte for byte; one A record per question; nothing for non-IN/A or truncated
    messages): n pseudo-random queries over UDP/IPv4 on the hook binary, compared with the response written from
    the statement.  Returns [(ok, info)]."""
    import random
    rnd = random.Random(1000 + seed)
    def name():
        if rnd.random() < 0.1: return b'\0'
        if rnd.random() < 0.3:   # arbitrary octets inside labels, zero included (names are label sequences, RFC 1035 3.1)
            labs = [bytes(rnd.choice([0, 0, 1, 46, 255, rnd.randint(0, 255)]) for _ in range(rnd.randint(1, 12))) for _ in range(rnd.randint(1, 4))]
        else:
            labs = [bytes(rnd.choice(b'abcdefghijklmnopqrstuvwxyz0123456789-') for _ in range(rnd.randint(1, 12))) for _ in range(rnd.randint(1, 4))]
        return b''.join(bytes([len(l)]) + l for l in labs) + b'\0'
    out = []
    d = R.Driver(repo)
    try:
        d.cfg(mac=R.MAC)
        for k in range(n):
            kind = rnd.choice(['ina', 'ina', 'ina', 'multi', 'other-type', 'other-class', 'truncated', 'opcode'])
            qid = rnd.randint(0x0100, 0xffff)
            opcode = rnd.randint(1, 15) if kind == 'opcode' else 0
            rd = rnd.randint(0, 1)
            nq = rnd.randint(2, 3) if kind == 'multi' else 1
            qs = [(name(), 1, 1) for _ in range(nq)]
            if kind == 'other-type': qs[-1] = (qs[-1][0], rnd.choice([2, 5, 12, 15, 16, 28, 255]), 1)
            if kind == 'other-class': qs[-1] = (qs[-1][0], 1, rnd.choice([3, 4, 255]))
            q = (qid, opcode, rd, qs, b'')
            trunc = rnd.randint(1, 4) if kind == 'truncated' else 0
            payload = dns_query_bytes(q, trunc)
            dst = rnd.choice(['10.0.0.1', '192.168.255.254', '172.16.5.9'])
            dport = rnd.choice([53, 53, 5353, 40000])
            fr = R.eth(R.MAC, R.PEER, 0x0800, R.ip4('10.0.0.77', dst, 17, R.udp(rnd.randint(1024, 65535), dport, payload)))
            r = d.frame(fr)
            got = r[1][42:] if r[0] == 'reply' else None
            exp = None if trunc else dns_expected(q, dst)
            ok = got == exp
            info = {'obligation': 'ground/C14/dns-e2e/%s' % kind, 'kind': kind}
            if not ok:
                info.update(frame_hex=fr.hex(), expected_payload_hex=exp.hex() if exp is not None else 'none', got_payload_hex=got.hex() if got is not None else r[0], query_hex=payload.hex(), dst_ip=dst)
            out.append((ok, info))
    finally:
        d.close()
    return out


# ----------------------------------------------------------------------------- C08: global mutable state (syntactic frame)
def g_c08_statics(repo):
    """C08 frame, syntactic half: the connection table CONTABLE is the only global mutable state of the crate, so a
    function that is not handed the table (no World parameter in the verified text, rule R4) cannot make one frame's
    reply depend on another frame.  Scans every non-test source file for `static mut`, interior-mutable statics
    (Mutex/RwLock/RefCell/Cell/Atomic*/OnceCell inside `static` or `lazy_static!`) and `thread_local!`."""
    import rustscan
    found = []
    srcdir = os.path.join(repo, 'src')
    for root, _, files in os.walk(srcdir):
        for fn in sorted(files):
            if not fn.endswith('.rs') or fn == 'verif_driver.rs': continue
            path = os.path.join(root, fn)
            src = open(path, encoding='utf-8').read()
            m = rustscan.mask(src)
            # drop #[cfg(test)] modules
            tests = [(mo.start(), rustscan.match_close(m, m.index('{', mo.end()))) for mo in _re.finditer(r'#\[cfg\(test\)\]\s*(?:pub\s+)?mod\s+\w+\s*', m)]
            def in_test(o): return any(a <= o <= b for a, b in tests)
            rel = os.path.relpath(path, repo)
            for mo in _re.finditer(r'\bstatic\s+mut\s+(\w+)', m):
                if not in_test(mo.start()): found.append((rel, 'static mut', mo.group(1)))
            for mo in _re.finditer(r'\bthread_local!\s*[\{\(]', m):
                if not in_test(mo.start()): found.append((rel, 'thread_local', ''))
            for mo in _re.finditer(r'\bstatic\s+(?:ref\s+)?(\w+)\s*:\s*([^=;]+)[=;]', m):
                if in_test(mo.start()): continue
                ty = mo.group(2)
                if _re.search(r'\b(Mutex|RwLock|RefCell|Cell|UnsafeCell|OnceCell|OnceLock|Atomic\w+)\b', ty):
                    found.append((rel, 'interior-mutable static', mo.group(1)))
    names = sorted(set(n for _, _, n in found))
    ok = names == ['CONTABLE']
    return ok, {'obligation': 'ground/C08/global-mutable-state', 'found': ['%s: %s %s' % f for f in found], 'expected': ['src/proto/tcb.rs: interior-mutable static CONTABLE']}


# ----------------------------------------------------------------------------- C11/C13: dead rows of the HTTP method automaton
def g_http_dead_rows(th):
    """axiom_http_dead_rows (contracts/proto__http.vspec): the closure of UNANCHORED_STATE (row 1) under the symbols of
    all 256 byte values contains no row that reports the method id 0."""
    w = 1 << th['row_shift']
    c2s = th['char_to_symbol']
    seen = {1}; todo = [1]
    while todo:
        r = todo.pop()
        for b in range(256):
            r2 = th['transitions'][r * w + c2s[b]]
            if r2 not in seen:
                seen.add(r2); todo.append(r2)
    bad = [r for r in sorted(seen) if 0 in th['matches'][r]['ids'][:th['matches'][r]['count']]]
    return not bad, {'obligation': 'ground/http-dead-rows', 'closure_of_unanchored': sorted(seen), 'rows_reporting_a_method': bad}


# ----------------------------------------------------------------------------- C12: reflection chains (bounded stand-in)
def g_c12_reflection(repo):
    """BOUNDED stand-in for the reflection clause of C12: for a sample request of every supported protocol, the
    responder's reply is re-addressed to the responder (as a spoofed source or a second responder would do), and so
    on: the chain request -> reply -> reply(reply) .. must contain at most two replies.  UDP payloads are bounced as
    UDP payloads; TCP application replies are bounced as the first data segment of a fresh, validated flow; ICMP
    echo, ARP and ND replies are bounced as frames with addresses swapped."""
    out = []
    d = R.Driver(repo)
    try:
        d.cfg(mac=R.MAC)
        me4, peer4, me6, peer6 = '10.0.0.1', '10.0.0.2', '2001:db8::1', '2001:db8::2'
        def udp_chain(name, payload, dport):
            chain = []
            p_ = payload
            for k in range(4):
                r = d.frame(R.eth(R.MAC, R.PEER, 0x0800, R.ip4(peer4, me4, 17, R.udp(40000 + k, dport, p_))))
                if r[0] != 'reply': break
                p_ = r[1][42:]
                chain.append(p_.hex()[:64])
            return name, chain
        def tcp_chain(name, payload, dport):
            chain = []
            p_ = payload
            for k in range(4):
                sp = 41000 + k
                c = d.cookie(peer4, me4, sp, dport)
                r = d.frame(R.eth(R.MAC, R.PEER, 0x0800, R.ip4(peer4, me4, 6, R.tcp(sp, dport, 1000, (c + 1) & 0xffffffff, R.PSH | R.ACK, p_))))
                if r[0] != 'reply' or len(r[1]) <= 54: break
                p_ = r[1][54:]
                chain.append(p_.hex()[:64])
            return name, chain
        samples = []
        samples.append(udp_chain('dns', bytes.fromhex('123401000001000000000000016100') + b'\0\1\0\1', 53))
        samples.append(udp_chain('stun', bytes.fromhex('000100002112a442') + b'0123456789ab', 3478))
        samples.append(udp_chain('rpc-udp', struct.pack('!IIIIIIIIII', 0x11223344, 0, 2, 100000, 2, 0, 0, 0, 0, 0), 111))
        samples.append(tcp_chain('http', b'GET / HTTP/1.1\r\n\r\n', 80))
        samples.append(tcp_chain('ssh', b'SSH-2.0-client\r\n', 22))
        samples.append(tcp_chain('ghost', b'Gh0st\x00\x00\x00\x00', 8000))
        samples.append(tcp_chain('rpc-tcp', _rpc_record(struct.pack('!IIIIIIIIII', 0x11223344, 0, 2, 100000, 2, 0, 0, 0, 0, 0)), 111))
        smb1 = bytes.fromhex('00000054ff534d4272000000001843c8000000000000000000000000fffffffe00000000003100024c414e4d414e312e3000024c4d312e325830303200024e54204c414e4d414e20312e3000024e54204c4d20302e313200')
        samples.append(tcp_chain('smb1', smb1, 445))
        # frame-level: ICMP echo, ARP
        def frame_chain(name, fr, swap):
            chain = []
            for k in range(4):
                r = d.frame(fr)
                if r[0] != 'reply': break
                chain.append(r[1].hex()[:64])
                fr = swap(r[1])
            return name, chain
        def swap_eth(fr): return fr   # the reply is already addressed peer-wards; re-inject it towards the responder:
        def readdress(fr):
            # swap MACs back and (IPv4) swap addresses so that the reply arrives at the responder again
            e = bytearray(fr)
            e[0:6], e[6:12] = fr[6:12], fr[0:6]
            if fr[12:14] == b'\x08\x00':
                e[26:30], e[30:34] = fr[30:34], fr[26:30]
                e[24:26] = b'\0\0'; e[24:26] = struct.pack('!H', R.csum(bytes(e[14:34])))
            elif fr[12:14] == b'\x08\x06':
                e[22:28], e[28:32], e[32:38], e[38:42] = fr[32:38], fr[38:42], fr[22:28], fr[28:32]
            return bytes(e)
        samples.append(frame_chain('icmp-echo', R.eth(R.MAC, R.PEER, 0x0800, R.ip4(peer4, me4, 1, R.icmp(8, 0, b'\0\1\0\1abcdefgh'))), readdress))
        samples.append(frame_chain('arp', R.eth('ff:ff:ff:ff:ff:ff', R.PEER, 0x0806, R.arp(1, R.PEER, peer4, '00:00:00:00:00:00', me4)), readdress))
        # variants: the bytes a responder copies from the request into the head of its reply (DNS ID, RPC XID, STUN
        # transaction id) are chosen to look like the leading bytes of the other protocols' signatures, which is where a
        # reply could be taken for a request of another protocol; here only the bound (at most two replies) is asked
        heads = [b'\x00\x01', b'\x00\x00', b'GE', b'SS', b'Gh', b'\x00\x01\x00\x00', b'\x00\x00\x00\x54', b'PO', b'\x01\x01', b'\x81\x80']
        variants = []
        for h in heads:
            h2 = (h + b'\x00\x00')[:2]; h4 = (h + b'\x00\x00\x00\x00')[:4]
            for rd in (0, 1):
                variants.append(udp_chain('dns', h2 + bytes([rd, 0]) + bytes.fromhex('0001000000000000016100') + b'\0\1\0\1', 53))
            variants.append(udp_chain('dns', h2 + bytes.fromhex('01000002000000000000') + b'\x01a\0\0\1\0\1' + b'\x02bc\0\0\1\0\1', 5353))
            variants.append(udp_chain('stun', bytes.fromhex('00010000') + h4 + b'0123456789ab', 3478))
            variants.append(udp_chain('stun', bytes.fromhex('000100002112a442') + h4 + b'01234567', 40000))
            variants.append(udp_chain('rpc-udp', h4 + struct.pack('!IIIIIIIII', 0, 2, 100000, 2, 3, 0, 0, 0, 0), 111))
            variants.append(udp_chain('rpc-udp', h4 + struct.pack('!IIIIIIIII', 0, 2, 100000, 4, 4, 0, 0, 0, 0), 2049))
            variants.append(tcp_chain('rpc-tcp', _rpc_record(h4 + struct.pack('!IIIIIIIII', 0, 2, 100000, 3, 3, 0, 0, 0, 0)), 111))
        for v in (b'PUT', b'POST', b'HEAD', b'DELETE', b'CONNECT', b'OPTIONS', b'TRACE', b'PATCH'):
            variants.append(tcp_chain('http', v + b' / HTTP/1.0\r\nHost: a\r\n\r\n', 8080))
            variants.append(udp_chain('http', v + b' / HTTP/1.1\n\n', 80))
        smb2 = bytes.fromhex('00000068fe534d4240000000000000000000000000000000000000000000000000000000000000000000000000000000000000000000000000000000000000000000000024000200010000000000000000000000000000000000000000000000000000000000020210020000')
        variants.append(tcp_chain('smb2', smb2, 445))
        worst = {}
        for name, chain in variants:
            if len(chain) > len(worst.get(name, [])): worst[name] = chain
        for name, chain in sorted(worst.items()):
            out.append((len(chain) <= 2, {'obligation': 'ground/C12/reflection-variants/' + name, 'longest_chain_over_the_variants': len(chain),
                                          'variants': sum(1 for n_, _ in variants if n_ == name), 'chain_prefixes_hex': chain}))
        for name, chain in samples:
            if name in ('ssh', 'ghost'):
                # SSH identification strings and Gh0st frames carry no request/reply marking: C12 does not list them; the
                # banner exchange is symmetric by protocol.  Recorded as an observation, not an obligation.
                out.append((True, {'obligation': 'ground/C12/reflection-observed/' + name, 'replies_in_chain_followed_4_steps': len(chain),
                                   'note': 'not an obligation: the protocol has no reply marking'}))
                continue
            ok = 1 <= len(chain) <= 2
            out.append((ok, {'obligation': 'ground/C12/reflection/' + name, 'replies_in_chain': len(chain), 'chain_prefixes_hex': chain}))
    finally:
        d.close()
    return out


def g_http_verbs(th):
    """axiom_http_verbs (contracts/proto__http.vspec): scanning each of the nine methods from BASE_STATE reaches a match
    row exactly at the last byte, and that row reports exactly the id 0 (HttpField::Verb)."""
    w = 1 << th['row_shift']; c2s = th['char_to_symbol']; ml = th['match_limit']
    bad = []
    for v in (b'GET', b'PUT', b'POST', b'HEAD', b'DELETE', b'CONNECT', b'OPTIONS', b'TRACE', b'PATCH'):
        r = 0; ok = True
        for k, b in enumerate(v):
            r = th['transitions'][r * w + c2s[b]]
            if k < len(v) - 1 and r >= ml: ok = False
        m = th['matches'][r]
        if not (ok and r >= ml and m['ids'][:m['count']] == [0]): bad.append(v.decode())
    return not bad, {'obligation': 'ground/http-verbs', 'methods_not_matched_as_stated': bad}

def g_http_verbs_only(th, repo):
    """C13 "unknown method => silence", decided on the compiled table: outside the closure D of UNANCHORED_STATE (rows
    that can never report a method: ground/http-dead-rows) the rows reachable from BASE_STATE over byte symbols form an
    acyclic graph, and the symbol paths from BASE_STATE to a row reporting id 0 (HttpField::Verb) spell exactly the nine
    methods of the statement (the table is case-insensitive: a symbol stands for both cases of a letter).  A method the
    statement does not list is replayed on the hook binary as `<METHOD> / HTTP/1.0 CRLF CRLF` over UDP."""
    w = 1 << th['row_shift']; c2s = th['char_to_symbol'][:256]
    syms = sorted(set(c2s))
    def ids(r):
        m = th['matches'][r]; return m['ids'][:m['count']]
    dead = {1}; todo = [1]
    while todo:
        r = todo.pop()
        for s_ in syms:
            r2 = th['transitions'][r * w + s_]
            if r2 not in dead: dead.add(r2); todo.append(r2)
    edges = {}; reach = {0}; todo = [0]
    while todo:
        r = todo.pop()
        for s_ in syms:
            r2 = th['transitions'][r * w + s_]
            if r2 in dead: continue
            edges.setdefault(r, []).append((s_, r2))
            if r2 not in reach: reach.add(r2); todo.append(r2)
    color = {}; cyc = []
    def dfs(r):
        color[r] = 1
        for s_, r2 in edges.get(r, []):
            if color.get(r2) == 1: cyc.append([r, s_, r2])
            elif r2 not in color: dfs(r2)
        color[r] = 2
    dfs(0)
    info = {'obligation': 'ground/http-verbs-only', 'dead_rows': sorted(dead), 'reachable_rows': len(reach), 'cycles': cyc[:5]}
    if cyc:
        return False, info
    symch = {}
    for s_ in syms:
        bs = [b for b in range(256) if c2s[b] == s_]
        symch[s_] = chr(bs[0]).upper() if len(bs) <= 2 and all(chr(b).upper() == chr(bs[0]).upper() for b in bs) else '\\x%02x..' % bs[0]
    found = []
    def walk(r, path):
        for s_, r2 in edges.get(r, []):
            p_ = path + symch[s_]
            if 0 in ids(r2): found.append(p_)
            walk(r2, p_)
    walk(0, '')
    want = {'GET', 'PUT', 'POST', 'HEAD', 'DELETE', 'CONNECT', 'OPTIONS', 'TRACE', 'PATCH'}
    extra = sorted(set(found) - want); missing = sorted(want - set(found))
    info.update({'methods_recognised': sorted(found), 'not_in_the_statement': extra, 'missing': missing})
    if extra:
        d = R.Driver(repo)
        try:
            d.cfg(mac=R.MAC)
            req = extra[0].encode('latin1') + b' / HTTP/1.0\r\n\r\n'
            r = d.frame(R.eth(R.MAC, R.PEER, 0x0800, R.ip4('10.0.0.2', '10.0.0.1', 17, R.udp(40000, 80, req))))
            info['witness'] = {'request_hex': req.hex(), 'request': req.decode('latin1'), 'outcome': r[0],
                               'reply_starts': (r[1][42:42 + 24].decode('latin1') if r[0] == 'reply' else None)}
        finally:
            d.close()
    return not extra and not missing, info

# ----------------------------------------------------------------------------- per-property driver
def run(pid, tier, repo, build, seed):
    res = {'obligations': 0, 'discharged': 0, 'violations': [], 'undecided': [], 'details': []}
    try:
        R.build(repo)
    except R.BuildError as e:
        res['undecided'].append('hook binary does not build: ' + str(e)[-400:])
        return res
    def add(ok, info, name, tags_desc, as_violation=True, bounded=False):
        # bounded stand-ins are counted apart: they are executions over a stated finite sample, never proofs
        res['bounded_checks' if bounded else 'obligations'] = res.get('bounded_checks' if bounded else 'obligations', 0) + 1
        res['details'].append(info)
        if ok:
            res['bounded_passed' if bounded else 'discharged'] = res.get('bounded_passed' if bounded else 'discharged', 0) + 1
        elif as_violation:
            res['violations'].append({'obligation': name, 'unit': 'ground', 'fn': name, 'kind': 'ground', 'message': tags_desc,
                                      'tags': [pid], 'clause': tags_desc, 'clause_at': None, 'site': None, 'site_text': json.dumps(info),
                                      'spans': [], 'rendered': json.dumps(info, indent=1), 'witness': info})
    try:
        if pid == 'C01':
            ok, info = g_init_smack(repo)
            add(ok, info, 'ground/init-smack', 'proto_init()/http_init() complete without panic')
        if pid in ('C01', 'C10', 'C11', 'C13'):
            d = R.Driver(repo)
            try:
                tp = d.dump_smack('proto'); th = d.dump_smack('http')
            finally:
                d.close()
            for nm, t in (('proto', tp), ('http', th)):
                bad = smack_wf(t)
                add(not bad, {'obligation': 'ground/smack-wf/' + nm, 'violated': bad, 'rows': t['state_count'], 'symbols': t['symbol_count']},
                    'ground/smack-wf/' + nm, 'Smack::wf() holds for the compiled %s automaton: %s' % (nm, bad))
            ids = sorted(set(i for m in tp['matches'][:tp['state_count']] for i in m['ids']))
            okp = bool(ids) and min(ids) >= 1 and max(ids) <= 8 and tp['match_limit'] > 0
            add(okp, {'obligation': 'ground/proto-table-facts', 'ids': ids, 'match_limit': tp['match_limit']}, 'ground/proto-table-facts',
                'axiom_proto_table: ids of PROTO_SMACK are within 1..8 and BASE_STATE is a resting state')
            hids = sorted(set(i for m in th['matches'][:th['state_count']] for i in m['ids']))
            okh = bool(hids) and min(hids) >= 0 and max(hids) <= 4 and th['match_limit'] > 1 and all(m['count'] <= 1 for m in th['matches'][:th['state_count']])
            add(okh, {'obligation': 'ground/http-table-facts', 'ids': hids, 'match_limit': th['match_limit']}, 'ground/http-table-facts',
                'axiom_http_table: ids of HTTP_SMACK within 0..4, one id per match row, BASE and UNANCHORED are resting states')
            if pid in ('C13', 'C01'):
                ok_, info_ = g_http_verbs(th)
                add(ok_, info_, 'ground/http-verbs', 'axiom_http_verbs: each of the nine methods is reported (id 0) exactly at its last byte: %s' % info_)
            if pid == 'C13':
                ok_, info_ = g_http_verbs_only(th, repo)
                add(ok_, info_, 'ground/http-verbs-only', 'the methods recognised by the compiled HTTP table are exactly the nine of the statement (unknown method => not answered): %s' % {k: info_.get(k) for k in ('not_in_the_statement', 'missing', 'cycles', 'witness')})
            if pid in ('C11', 'C13', 'C01'):
                ok_, info_ = g_http_dead_rows(th)
                add(ok_, info_, 'ground/http-dead-rows', 'axiom_http_dead_rows: no method can be reported from the closure of UNANCHORED_STATE: %s' % info_)
            if pid == 'C10':
                sigs = signature_set(repo)
                st, disc = product_explore(tp, sigs)
                res['states'] = st['states']; res['transitions'] = st['transitions']
                keys = {}
                for x in disc:
                    keys.setdefault(canonical(x, sigs), x)
                # one obligation per explored product transition class; discrepancies grouped by canonical key
                res['obligations'] += 1; res['details'].append({'obligation': 'ground/smack-language', 'product': st, 'signatures': len(sigs),
                                                                'discrepancies': len(disc), 'classes': sorted(keys)})
                if not disc:
                    res['discharged'] += 1
                for k, x in sorted(keys.items()):
                    name = 'ground/smack-language/' + k
                    res['violations'].append({'obligation': name, 'unit': 'ground', 'fn': name, 'kind': 'ground',
                        'message': 'compiled PROTO_SMACK differs from the signature set: ' + k, 'tags': [pid],
                        'clause': 'forall byte strings s: first match of the compiled table on s == first signature completed by s',
                        'clause_at': None, 'site': 'src/smack/smack.rs (fixup_wildcards) / src/proto/mod.rs (proto_init)', 'site_text': '',
                        'spans': [], 'rendered': 'witness (hex): %s  kind=%s signature=%s' % (x['witness'].hex(), x['kind'], x['sig']),
                        'witness': {'payload_hex': x['witness'].hex(), 'kind': x['kind'], 'signature': x['sig']}})
                if disc:
                    res['obligations'] += len(keys) - 1
        if pid == 'C10' or pid in SIG_PROPS:
            ok_, info_ = g_signature_set_pinned(repo, None if pid == 'C10' else SIG_PROPS[pid])
            add(ok_, info_, 'ground/signature-set', 'the signatures registered for %s are the published ones (spec/signatures.json: ids, patterns, anchors, wildcards, order): %s'
                % ('every protocol' if pid == 'C10' else 'this protocol', {k: info_.get(k) for k in ('only_in_pinned', 'only_in_tree', 'payload_hex', 'outcome')}))
        if pid in ('C16', 'C12'):
            ok_, info = g_rpc_tcp_second_call(repo)
            add(ok_, info, 'ground/C16/tcp-second-call-xid',
                'every ONC-RPC call on a TCP flow is answered with its own XID and a reply-typed record is not answered (witness: two calls / call then reply-typed record on one flow)')
        if pid == 'C11':
            ok_, info = g_rpc_tcp_args_cut(repo)
            add(ok_, info, 'ground/C11/rpc-args-cut',
                'an ONC-RPC call with arguments is answered once, by the segment that completes the record (witness: GETPORT call cut after the 40-byte header)')
        if pid == 'C11':
            same, info = g_c11_prefix(repo)
            add(same, info, 'ground/C11/identification-prefix-not-fed',
                'the first request on a flow is answered identically however the stream is cut (witness: GET / HTTP/1.1 cut after 2 bytes)')
        if pid == 'C12':
            rs = g_c12_reflection(repo)
            res['bounded'] = {'what': 'reflection chains on the hook binary: the reply to a sample request of each protocol is bounced back to the responder repeatedly; at most two replies per chain',
                              'bound': '%d sample requests (DNS, STUN, RPC/UDP, HTTP, SSH, Gh0st, RPC/TCP, SMB1, ICMP echo, ARP), chains followed for 4 steps' % len(rs), 'counted_as_proved': False}
            for ok, info in rs:
                add(ok, info, info['obligation'], 'BOUNDED: the reflection chain of this sample dies out after at most two replies: %s' % info.get('replies_in_chain'), bounded=True)
        if pid == 'C14':
            ok_, info_ = g_c14_label_zero(repo)
            add(ok_, info_, 'ground/C14/label-with-zero-byte', 'an IN/A query whose label holds a zero byte (names are label sequences: RFC 1035 3.1) is answered like any other: %s' % info_)
            n_ = 400 if tier == 'thorough' else 80
            rs = g_c14_dns(repo, n_, seed)
            groups = {}
            for ok, info in rs:
                g_ = groups.setdefault(info['obligation'], {'n': 0, 'bad': []})
                g_['n'] += 1
                if not ok: g_['bad'].append(info)
            res['bounded'] = {'what': 'DNS queries over UDP/IPv4 on the hook binary vs. the response written from the statement (every IN/A-only query answered, question echoed, one A record per question with the contacted address, nothing for other types/classes/truncated messages)',
                              'bound': '%d pseudo-random queries (seed %d): names of 0-4 labels, 1-3 questions, opcodes 0-15, RD 0/1, 3 destination addresses, 3 ports' % (len(rs), seed),
                              'counted_as_proved': False}
            for name, g_ in sorted(groups.items()):
                first = g_['bad'][0] if g_['bad'] else {}
                add(not g_['bad'], dict(first, obligation=name, queries=g_['n'], mismatches=len(g_['bad'])), name,
                    'BOUNDED: DNS responses for this class of query equal the response the statement asks for (%d sampled)' % g_['n'], bounded=True)
        if pid == 'C20':
            rs = g_c20_lines(repo)
            res['bounded'] = {'what': 'real ConsoleLogger/LogfmtLogger output on the hook binary: line syntax, recv/terminal nesting, eth send iff reply, printed addresses (stand-in for the logger code that is only a shim in the Verus units)',
                              'bound': '%d frames (every layer, every drop reason of the corpus in tools/ground.py c20_corpus) x 2 formats' % (len(rs) // 2),
                              'counted_as_proved': False}
            for ok, info in rs:
                add(ok, info, info['obligation'], 'BOUNDED: log lines of this frame are complete, nested and match the frame: %s' % info.get('violated'), bounded=True)
        if pid == 'C16':
            rs = g_c16_portmap(repo, thorough=(tier == 'thorough'))
            groups = {}
            for ok, info in rs:
                g_ = groups.setdefault(info['obligation'], {'n': 0, 'bad': []})
                g_['n'] += 1
                if not ok: g_['bad'].append(info)
            res['bounded'] = {'what': 'portmapper replies over UDP on the hook binary vs. the reply written from the statement (stand-in for the assumed contract of rpc::build_repl_portmap)',
                              'bound': '%d calls: versions 1..5 x procedures {0,1,3,4,5} x %d destination addresses x %d ports' % (len(rs), len(C16_IPS), len(rs) // (25 * len(C16_IPS))),
                              'counted_as_proved': False}
            for name, g_ in sorted(groups.items()):
                first = g_['bad'][0] if g_['bad'] else {}
                add(not g_['bad'], dict(first, obligation=name, calls=g_['n'], mismatches=len(g_['bad'])), name,
                    'BOUNDED: portmapper reply for this version/procedure equals the reply the statement asks for (%d sampled destinations)' % g_['n'], bounded=True)
        if pid in ('C08', 'C09'):
            ok_, info = g_c08_statics(repo)
            add(ok_, info, 'ground/C08/global-mutable-state',
                'CONTABLE is the only global mutable state of the crate (static mut / interior-mutable statics / thread_local): %s' % info['found'])
        if pid in ('C07', 'C08'):
            rep, info = g_cookie_collision(repo)
            # the obligation "distinct flows have distinct cookies" is FALSE when the witness reproduces
            add(not rep, dict(info, obligation='ground/A_inj/cookie-collision'), 'ground/A_inj/cookie-collision',
                'A_inj: no two live flows share a cookie (witness: %s vs %s)' % (info.get('flow_a'), info.get('flow_b')))
    except Exception as e:
        res['undecided'].append('ground check crashed: %r' % e)
    return res

_WITNESS_CACHE = {}
def find_witness(pid, failure, repo, build):
    """a concrete failing input for a reported violation: the ground obligation's own witness, or - for violations
    reported by the verifier, which gives no counterexample - the result of the bounded search of tools/witness.py
    (layers 2-4, reference model written from the statements).  The search never creates a violation."""
    if failure.get('witness'):
        return {'witness': failure['witness']}
    if failure.get('unit') == 'ground':
        return None
    if pid not in _WITNESS_CACHE:
        w = None
        try:
            import witness
            if pid in ('C01', 'C02', 'C03', 'C04', 'C05', 'C06', 'C07', 'C08', 'C09', 'C12', 'C13', 'C15', 'C18', 'C19', 'C14', 'C16', 'C17'):
                w = witness.search(pid, repo, budget_s=25.0)
        except Exception as e:
            w = None
        _WITNESS_CACHE[pid] = w
    w = _WITNESS_CACHE[pid]
    if w:
        return {'witness': dict(w, note='failing input found by the bounded witness search (tools/witness.py) on the hook binary; not a counterexample produced by the verifier')}
    return None

def replay(pid, path, repo, build):
    rec = json.load(open(path))
    w = rec.get('witness')
    if not w:
        print('replay file carries no concrete input (obligation %s); verifier output:\n%s' % (rec.get('obligation'), rec.get('verifier_output')))
        return 2
    if rec.get('obligation') == 'ground/A_inj/cookie-collision':
        rep, info = g_cookie_collision(repo)
        print(json.dumps(info, indent=1))
        print('REPRODUCED' if rep else 'not reproduced')
        return 1 if rep else 0
    gob = rec.get('obligation', '')
    if isinstance(w, dict) and w.get('ground_obligation'): gob = w['ground_obligation']
    if str(gob).startswith('ground/C20/lines/'):
        for ok, info in g_c20_lines(repo):
            if info['obligation'] == gob:
                print('frame %s' % info['frame_hex']); print('reply: %s' % info['reply'])
                for l in info['lines']: print('  | ' + l)
                print('violated: %s' % info.get('violated'))
                print('REPRODUCED' if not ok else 'not reproduced')
                return 1 if not ok else 0
        return 2
    if isinstance(w, dict) and w.get('frames_hex') and w.get('disagreements') is not None:
        # a frame sequence found by tools/witness.py: run it again and compare with the statements' model
        import witness
        d = R.Driver(repo)
        try:
            cfg = w.get('cfg') or {}
            d.cfg(mac=R.MAC, self=cfg.get('self', 'none'), deny=cfg.get('deny', 'none')); d.reset()
            m = witness.Model(lambda a, b, c, e: d.cookie(a, b, c, e), set(cfg['self'].split(',')) if cfg.get('self') else None, set(cfg['deny'].split(',')) if cfg.get('deny') else None)
            bad = []
            for fr_hex in w['frames_hex']:
                fr = bytes.fromhex(fr_hex)
                exp = m.expect(fr); r = d.frame(fr)
                got = r[1] if r[0] == 'reply' else None
                bad = witness.compare(fr, exp, got)
                print('frame %s\n  -> %s' % (fr_hex, got.hex() if got else r[0]))
            ts = d.tablesize()
            if ts != len(m.valid): bad.append('connection table holds %d entries, %d flows presented a valid cookie' % (ts, len(m.valid)))
        finally:
            d.close()
        print('recorded: %s' % w['disagreements'])
        print('now:      %s' % bad)
        print('REPRODUCED' if bad else 'not reproduced')
        return 1 if bad else 0
    if isinstance(w, dict) and w.get('frame_hex') and w.get('expected_payload_hex') is not None:
        # a frame whose application payload reply must equal the expected bytes (C16 portmapper stand-in)
        d = R.Driver(repo)
        try:
            d.cfg(mac=R.MAC)
            fr = bytes.fromhex(w['frame_hex'])
            r = d.frame(fr)
        finally:
            d.close()
        v6 = fr[12:14] == b'\x86\xdd'
        got = r[1][14 + (40 if v6 else 20) + 8:].hex() if r[0] == 'reply' else r[0]
        print('frame    %s' % w['frame_hex'])
        print('expected %s' % w['expected_payload_hex'])
        print('got      %s' % got)
        if w['expected_payload_hex'] == 'none':
            bad = r[0] == 'reply'
        else:
            bad = got != w['expected_payload_hex']
        print('REPRODUCED' if bad else 'not reproduced')
        return 1 if bad else 0
    print(json.dumps(w, indent=1))
    return 2

# ----------------------------------------------------------------------------- smack tables
def smack_wf(t):
    """The predicate Smack::wf() of contracts/smack__smack.vspec evaluated on a dumped table.  Returns list of
    violated conjuncts (empty = well-formed)."""
    bad = []
    rows = t['state_count']; W = 1 << t['row_shift']; lim = t['match_limit']
    c2s = t['char_to_symbol']; tr = t['transitions']; mm = t['matches']
    if len(c2s) != 258: bad.append('char_to_symbol.len() != 258')
    if t['row_shift'] > 16: bad.append('row_shift > 16')
    if not (0 < rows < 0x1000000): bad.append('rows out of range')
    if len(mm) < rows: bad.append('m_match shorter than the state table')
    if len(tr) != rows * W: bad.append('transitions.len() != rows * width')
    if any(c >= W for c in c2s): bad.append('symbol >= width')
    if any(x >= rows for x in tr): bad.append('transition target >= rows')
    if lim > rows: bad.append('m_match_limit > rows')
    for r in range(min(rows, len(mm))):
        m = mm[r]
        if m['count'] != len(m['ids']) or m['count'] >= 0xff: bad.append('row %d: count/ids mismatch' % r); break
        if r < lim and m['count'] != 0: bad.append('row %d below the match limit has matches' % r); break
        if r >= lim and m['count'] == 0: bad.append('row %d above the match limit has no match' % r); break
        if any(i >= 0xFFFF for i in m['ids']): bad.append('row %d: id out of range' % r); break
    return bad

def rust_bytes_literal(src, name):
    """Decode `const NAME: &[u8; N] = b"...";` from Rust source text."""
    import re
    mo = re.search(r'const\s+%s\s*:[^=]*=\s*b"' % re.escape(name), src)
    if not mo: raise KeyError(name)
    i = mo.end(); out = bytearray()
    while src[i] != '"':
        c = src[i]
        if c == '\\':
            n = src[i + 1]
            if n == 'x': out.append(int(src[i + 2:i + 4], 16)); i += 4
            elif n == 'n': out.append(10); i += 2
            elif n == 'r': out.append(13); i += 2
            elif n == 't': out.append(9); i += 2
            elif n == '0': out.append(0); i += 2
            elif n == '\\': out.append(92); i += 2
            elif n == '"': out.append(34); i += 2
            elif n == "'": out.append(39); i += 2
            elif n == '\n':
                i += 2
                while src[i] in ' \t\n': i += 1
            else: raise ValueError('escape \\' + n)
        else:
            out += c.encode('utf-8'); i += 1
    return bytes(out)

def signature_set(repo):
    """The published signature set, read from the add_pattern calls of proto_init() and the pattern constants
    in the current tree: list of dicts {name, id, pattern(bytes), begin, end, wild}."""
    import re
    src = open(os.path.join(repo, 'src/proto/mod.rs')).read()
    consts = dict((m.group(1), int(m.group(2))) for m in re.finditer(r'const (PROTO_\w+): usize = (\d+);', src))
    body = src[src.index('fn proto_init()'):]
    body = body[:body.index('\n}\n')]
    files = {}
    for f in ('http', 'stun', 'ssh', 'ghost', 'rpc', 'smb'):
        files[f] = open(os.path.join(repo, 'src/proto/%s.rs' % f)).read()
    sigs = []
    # HTTP verbs
    mo = re.search(r'pub const HTTP_VERBS: \[&str; \d+\] = \[(.*?)\];', files['http'], re.S)
    verbs = re.findall(r'"([A-Z]+)"', mo.group(1))
    mo = re.search(r'for \(_, v\) in HTTP_VERBS.*?format!\("([^"]*)", v\)\.as_bytes\(\),\s*(\w+),\s*([^\)]*?),?\s*\);', body, re.S)
    for v in verbs:
        sigs.append({'name': 'HTTP:' + v, 'id': consts[mo.group(2)], 'pattern': mo.group(1).replace('{}', v).encode(), 'flags': mo.group(3)})
    for mo in re.finditer(r'smack\.add_pattern\(\s*([A-Z0-9_]+),\s*(\w+),\s*([^;]*?),?\s*\);', body, re.S):
        cname = mo.group(1)
        pat = None
        for f, txt in files.items():
            try:
                pat = rust_bytes_literal(txt, cname); break
            except KeyError:
                pass
        if pat is None: raise KeyError(cname)
        sigs.append({'name': cname, 'id': consts[mo.group(2)], 'pattern': pat, 'flags': mo.group(3)})
    for s in sigs:
        s['begin'] = 'ANCHOR_BEGIN' in s['flags']; s['end'] = 'ANCHOR_END' in s['flags']; s['wild'] = 'WILDCARDS' in s['flags']
    return sigs

SIG_PROPS = {'C13': (1,), 'C15': (2,), 'C18': (3, 4), 'C16': (5, 6), 'C17': (7, 8), 'C12': (5, 6)}

def g_signature_set_pinned(repo, ids=None):
    """The published signature set (statement of C10) is pinned in spec/signatures.json: protocol ids, patterns, anchoring
    and wildcard flags, in registration order.  The set read from the current tree must equal it (restricted to the
    protocol ids of one responder when `ids` is given): a widened, tightened, added or removed signature changes which
    payloads reach a responder.  Witness: a payload completing the differing signature, sent to the hook binary."""
    pinned = json.load(open(os.path.join(VERIF, 'spec', 'signatures.json')))['signatures']
    cur = [{'name': x['name'], 'id': x['id'], 'pattern_hex': x['pattern'].hex(), 'begin': x['begin'], 'end': x['end'], 'wild': x['wild']}
           for x in signature_set(repo)]
    key = lambda x: (x['id'], x['pattern_hex'], x['begin'], x['end'], x['wild'])
    if ids is not None:
        pinned = [x for x in pinned if x['id'] in ids]; cur = [x for x in cur if x['id'] in ids]
    a = [key(x) for x in pinned]; b = [key(x) for x in cur]
    info = {'obligation': 'ground/signature-set', 'pinned': len(a), 'current': len(b)}
    if a == b:
        return True, info
    missing = [x for x in pinned if key(x) not in b]; extra = [x for x in cur if key(x) not in a]
    info['only_in_pinned'] = missing[:4]; info['only_in_tree'] = extra[:4]
    if not missing and not extra:
        info['order_changed'] = True
    # witness: a payload that completes the first differing signature ('*' -> 'A'), followed by "-x\r\n", over UDP
    x = (missing or extra or [None])[0]
    if x is not None:
        pat = bytes.fromhex(x['pattern_hex'])
        if x['wild']: pat = pat.replace(b'*', b'A')
        payload = pat if x['end'] else pat + b'-x\r\n'
        info['payload_hex'] = payload.hex(); info['completes'] = x['name']; info['expected'] = 'handled by protocol id %d' % x['id'] if x in missing else 'not handled by protocol id %d' % x['id']
        try:
            d = R.Driver(repo)
            try:
                d.cfg(mac=R.MAC)
                r = d.frame(R.eth(R.MAC, R.PEER, 0x0800, R.ip4('10.0.0.77', '10.0.0.1', 17, R.udp(40000, 4444, payload))))
            finally:
                d.close()
            info['outcome'] = r[0]; info['reply_payload_hex'] = r[1][42:].hex()[:128] if r[0] == 'reply' else None
            info['frames_hex'] = [R.eth(R.MAC, R.PEER, 0x0800, R.ip4('10.0.0.77', '10.0.0.1', 17, R.udp(40000, 4444, payload))).hex()]
        except Exception as e:
            info['witness_error'] = str(e)[:200]
    return False, info

def product_explore(t, sigs):
    """Exhaustive exploration of (compiled table row) x (reference signature automaton) over byte-class
    representatives.  Returns (stats, discrepancies)."""
    from collections import deque
    rows = t['state_count']; sh = t['row_shift']; lim = t['match_limit']
    c2s = t['char_to_symbol']; tr = t['transitions']; mm = t['matches']
    step = lambda row, sym: tr[(row << sh) + sym]
    lits = set()
    for s in sigs:
        for k, b in enumerate(s['pattern']):
            if not (s['wild'] and b == ord('*')): lits.add(b)
    reps = sorted(lits)
    seen_sym = set(c2s[b] for b in reps)
    for b in range(256):
        if b not in lits and c2s[b] not in seen_sym or (b not in lits and not any(x not in lits for x in reps)):
            reps.append(b); seen_sym.add(c2s[b])
    if not any(b not in lits for b in reps):
        for b in range(256):
            if b not in lits: reps.append(b); break
    def matches_at(s, k, b):
        p = s['pattern']
        return k < len(p) and ((s['wild'] and p[k] == ord('*')) or p[k] == b)
    start = (0, 0, frozenset(range(len(sigs))))
    seen = {start: b''}
    q = deque([start])
    disc = []
    trans = 0
    while q:
        st = q.popleft()
        row, n, alive = st
        path = seen[st]
        # --- end-of-input behaviour (UDP): feed END
        r2 = step(row, c2s[257])
        end_ids = list(mm[r2]['ids']) if mm[r2]['count'] else []
        exp_end = [sigs[i] for i in alive if sigs[i]['end'] and len(sigs[i]['pattern']) == n]
        got = end_ids[-1] if end_ids else None
        if exp_end and got not in [s['id'] for s in exp_end]:
            disc.append({'kind': 'end-missing', 'sig': exp_end[0]['name'], 'witness': path})
        if not exp_end and got is not None:
            disc.append({'kind': 'end-extra', 'sig': 'id%d' % got, 'witness': path})
        for b in reps:
            trans += 1
            row2 = step(row, c2s[b])
            alive2 = frozenset(i for i in alive if matches_at(sigs[i], n, b))
            completed = [sigs[i] for i in alive2 if len(sigs[i]['pattern']) == n + 1 and not sigs[i]['end']]
            m_ids = list(mm[row2]['ids']) if row2 >= lim else []
            got = m_ids[-1] if m_ids else None
            w = path + bytes([b])
            if completed:
                if got not in [s['id'] for s in completed]:
                    disc.append({'kind': 'false-negative' if got is None else 'wrong-id', 'sig': completed[0]['name'], 'witness': w})
                continue        # decision point reached on the reference side
            if got is not None:
                disc.append({'kind': 'false-positive', 'sig': 'id%d' % got, 'witness': w})
                continue
            n2 = n + 1 if alive2 else 0
            nxt = (row2, n2, alive2)
            if nxt not in seen:
                seen[nxt] = w
                q.append(nxt)
    return {'states': len(seen), 'transitions': trans, 'representatives': len(reps)}, disc

def canonical(d, sigs):
    """(kind, signature, longest literal prefix of ANOTHER signature that the witness starts with)"""
    w = d['witness']
    best = b''
    for s in sigs:
        if s['name'] == d['sig']: continue
        p = s['pattern']; k = 0
        while k < len(p) and k < len(w) and not (s['wild'] and p[k] == ord('*')) and p[k] == w[k]:
            k += 1
        if k > len(best): best = bytes(w[:k])
    return '%s/%s/%s' % (d['kind'], d['sig'], best.hex())
