#!/usr/bin/env python3
"""kani_pnet.py [--filter substr]: validates the assumed pnet contracts (shim/pnet.rs) against the real
pnet_packet 0.33.0 source with Kani.  Harnesses are generated from the same field table as the Verus
axioms (tools/gen_kani_pnet.py).  Writes build/kani_pnet.json; exit 0 iff every harness verified."""
import os, sys, re, json, subprocess, shutil, time
VERIF = os.path.dirname(os.path.dirname(os.path.abspath(__file__)))
sys.path.insert(0, os.path.join(VERIF, 'tools'))
import gen_kani_pnet

def run(filter_=None, repo='/repo'):
    gen_kani_pnet.gen()
    crate = os.path.join(VERIF, 'kani', 'pnet_axioms')
    shutil.copy(os.path.join(repo, 'Cargo.lock'), os.path.join(crate, 'Cargo.lock'))
    env = dict(os.environ, CARGO_NET_OFFLINE='true', CARGO_TARGET_DIR=os.path.join(VERIF, 'build', 'kani_target'))
    base = ['cargo', 'kani', '--output-format', 'terse']
    table_ = json.load(open(os.path.join(crate, 'harnesses.json')))
    if filter_:
        groups = [filter_]
    else:
        # one cargo-kani process per packet module, one per checksum harness (those dominate the run time)
        CK = ['ip4_header_checksum', 'tcp_ipv4_checksum', 'tcp_ipv6_checksum', 'udp_ipv4_checksum', 'udp_ipv6_checksum', 'icmp_checksum', 'icmpv6_checksum', 'pseudo6_swap']
        mods = sorted(set(h['harness'].split('_')[0] for h in table_ if h['harness'] not in CK))
        groups = ['%s_axioms::' % m for m in mods] + ['cksum_axioms::' + h for h in CK]
    t0 = time.time()
    # build once (the other processes then only wait for the lock and reuse the artefacts)
    first = subprocess.run(base + ['--harness', groups[0]], cwd=crate, env=env, stdout=subprocess.PIPE, stderr=subprocess.STDOUT)
    outs = [first.stdout.decode('utf-8', 'replace')]
    rcs = [first.returncode]
    from concurrent.futures import ThreadPoolExecutor
    def one(g):
        q = subprocess.run(base + ['--harness', g], cwd=crate, env=env, stdout=subprocess.PIPE, stderr=subprocess.STDOUT)
        return q.returncode, q.stdout.decode('utf-8', 'replace')
    with ThreadPoolExecutor(max_workers=8) as ex:
        for rc_, o_ in ex.map(one, groups[1:]):
            rcs.append(rc_); outs.append(o_)
    out = '\n'.join(outs)
    cmd = base + ['--harness', '<group>  (groups: %s)' % ' '.join(groups)]
    class P: pass
    p = P(); p.returncode = max(rcs)
    table = {h['harness']: h for h in json.load(open(os.path.join(crate, 'harnesses.json')))}
    res = []
    cur = None
    for l in out.split('\n'):
        mo = re.match(r'Checking harness (\S+?)\.\.\.', l)
        if mo:
            cur = {'harness': mo.group(1).split('::')[-1], 'status': None, 'time_s': None, 'failed_checks': []}
            cur.update({k: v for k, v in table.get(cur['harness'], {}).items() if k != 'harness'})
            res.append(cur); continue
        if cur is None: continue
        mo = re.match(r'VERIFICATION:- (\w+)', l)
        if mo: cur['status'] = mo.group(1)
        mo = re.match(r'Verification Time: ([0-9.]+)s', l)
        if mo: cur['time_s'] = float(mo.group(1))
        mo = re.match(r'Failed Checks: (.*)', l)
        if mo: cur['failed_checks'].append(mo.group(1))
    ok = p.returncode == 0 and len(res) >= (1 if filter_ else len(table)) and all(r['status'] == 'SUCCESSFUL' for r in res)
    summary = {'ok': bool(ok), 'kani_exit': p.returncode, 'harnesses': len(res), 'successful': sum(1 for r in res if r['status'] == 'SUCCESSFUL'),
               'complete': sum(1 for r in res if r.get('kind') == 'complete' and r['status'] == 'SUCCESSFUL'),
               'bounded': sum(1 for r in res if r.get('kind') == 'bounded' and r['status'] == 'SUCCESSFUL'),
               'wall_s': round(time.time() - t0, 1), 'cmd': 'cd kani/pnet_axioms && ' + ' '.join(cmd), 'results': res,
               'tail': out[-1500:] if not ok else ''}
    if not filter_:
        summary['key'] = _key(crate, repo)
        os.makedirs(os.path.join(VERIF, 'build'), exist_ok=True)
        json.dump(summary, open(os.path.join(VERIF, 'build', 'kani_pnet.json'), 'w'), indent=1)
    return summary

def _key(crate, repo):
    import hashlib
    h = hashlib.sha256()
    h.update(open(os.path.join(crate, 'src', 'lib.rs'), 'rb').read())
    h.update(open(os.path.join(repo, 'Cargo.lock'), 'rb').read())
    return h.hexdigest()

def run_cached(repo='/repo'):
    """Re-uses build/kani_pnet.json when it was produced from identical harness source and lock file
    (the pnet source itself is the immutable registry copy pinned by the lock file)."""
    gen_kani_pnet.gen()
    crate = os.path.join(VERIF, 'kani', 'pnet_axioms')
    key = _key(crate, repo)
    p = os.path.join(VERIF, 'build', 'kani_pnet.json')
    if os.path.exists(p):
        try:
            s = json.load(open(p))
            if s.get('key') == key and s.get('ok'):
                s['reused'] = True
                return s
        except Exception:
            pass
    return run(None, repo)

if __name__ == '__main__':
    f = None
    if '--filter' in sys.argv: f = sys.argv[sys.argv.index('--filter') + 1]
    s = run(f) if f else run_cached()
    print('kani pnet axioms: %d/%d harnesses verified (%d complete, %d bounded) in %.0fs' % (s['successful'], s['harnesses'], s['complete'], s['bounded'], s['wall_s']))
    for r in s['results']:
        if r['status'] != 'SUCCESSFUL': print('  FAILED', r['harness'], r['failed_checks'][:2])
    sys.exit(0 if s['ok'] else 2)
