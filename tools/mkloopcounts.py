#!/usr/bin/env python3
"""Writes contracts/loop_counts.json: for every function with loop contracts, the number of loops its body has on
the tree the contracts were written against (run on the unchanged tree, together with ./check --update-trusted)."""
import os, sys, json
VERIF = os.path.dirname(os.path.dirname(os.path.abspath(__file__)))
sys.path.insert(0, os.path.join(VERIF, 'tools'))
import splice, vspec
def main(repo=os.environ.get('VERIF_REPO', '/repo')):
    contracts = vspec.load_all(os.path.join(VERIF, 'contracts'))
    p = os.path.join(VERIF, 'contracts', 'loop_counts.json')
    if os.path.exists(p): os.remove(p)
    out = {}
    for f in sorted(os.listdir(os.path.join(VERIF, 'units'))):
        if not f.endswith('.json') or f == 'base.json': continue
        u = splice.Unit(f[:-5], repo=repo, contracts=contracts)
        u.build()
        for fv in u.report['functions_verified']:
            if fv.get('loop_contract'):
                out[fv['fn']] = fv['loops']
    json.dump(out, open(p, 'w'), indent=1, sort_keys=True)
    print('wrote', p, len(out), 'functions')
if __name__ == '__main__':
    main()
