#!/usr/bin/env python3
"""Writes MANIFEST.json from the table below (kept next to the code so that it stays current)."""
import json, os
VERIF = os.path.dirname(os.path.dirname(os.path.abspath(__file__)))

TECH = 'contract-based deductive verification: Verus discharges requires/ensures/invariants spliced onto the functions extracted verbatim from /repo/src on every run'
PNET = 'pnet 0.33 accessors/constructors/checksum routines are assumed contracts (shim/pnet.rs, generated from a field table; the field algebra over them is proved in unit u_pnet); std HashSet/HashMap per vstd; x86-64 usize'

CLAIMS = {
 'C01': dict(
   text='Verus proves, for every function under contract on the reply() path from masscanned::reply down to tcp::repl/udp::repl/icmp*::repl/arp::repl (bodies extracted verbatim), absence of panics: every index, slice, arithmetic operation, unwrap/expect and callee precondition (incl. pnet set_payload bounds and Debug-formatting obligations of log arguments, evaluated at every verbosity) and termination of every loop, for all frames <= 4096 bytes and all table states satisfying the representation invariant, which every function preserves. Ground: both automaton initialisers run to completion on the real binary.',
   note='proto::repl, the smack matcher and the HTTP, SSH, STUN, DNS, Gh0st, RPC and SMB responders are under contract (two string-building RPC helpers and two closures of smb.rs lifted into helpers with assumed contracts; the wall clock is assumed to lie between 1970 and 2^40 s). Loggers (console/logfmt) are represented by the MetaLogger shim. ' + PNET),
 'C02': dict(
   text='Postconditions of layer_2::reply, get_authorized_eth_addr (loop invariant over the self-IP set), arp::repl, ipv4::repl, ipv6::repl, icmpv6::repl/nd_ns_repl: a reply exists only if dst MAC is in Auth(MAC,S), src IP not denied, EtherType/next protocol supported; with S configured the reply source IP and every advertised address is in S. Composed to the frame level in eth_reply_ok (masscanned::reply).',
   note=PNET + '; HashSet<IpAddr>/HashSet<MacAddr> obey the vstd key model (assumed)'),
 'C03': dict(
   text='Mirror postconditions at each layer (Ethernet src/dst/type, IP src/dst/protocol incl. the ND target substitution, TCP/UDP ports incl. the STUN change-port exception) proved per function and carried to the frame level; at most one reply by the Option return type.',
   note='the STUN exception is the predicate is_stun_change_port (TLV walk, spec/app.rs), proved for stun::repl; the other responders are still assumed to leave the client record unchanged; ' + PNET),
 'C04': dict(
   text='IPv4 version/IHL/total length/DF/fragment offset/TTL, IPv6 version/payload length/hop limit (255 for NA), UDP length, TCP data offset and window proved as postconditions; every checksum field is proved to hold the result of pnet\'s checksum routine over the FINAL bytes and the reply\'s own pseudo-header (incl. the set_length-after-checksum order in ipv4.rs and the zero->0xFFFF rule for UDP/IPv6).',
   note='the arithmetic of the RFC 1071 sum itself is pnet\'s (uninterpreted inet_ck_raw; commutativity over address blocks assumed); ' + PNET),
 'C05': dict(
   text='arp::repl, icmpv4::repl, icmpv6::repl, nd_ns_repl are proved equal to byte-level reference replies written from the statement (arp_reply_spec; echo reply = type 0/129 ++ request[4..]; NA = 136,0,ck,0x60.. ++ target ++ TLLA option with the MAC) with iff conditions on op/type/code/handled address; carried through ipv6::repl.',
   note=PNET),
 'C06': dict(
   text='tcp::repl: for every flag word with SYN set, reply is exactly SYN|ACK iff syn_allowed(flags) (written from the statement), ack = seq+1 mod 2^32, 20-byte segment, seq = cookie_spec(key, src, dst, sport, dport); synackcookie::generate proved equal to cookie_spec (SipHash transcript of the fixed-width encoding). Table unchanged in this arm.',
   note='cookie unpredictability / "differs up to 2^-32" rests on SipHash-2-4 being a PRF (uninterpreted sip24; not decidable by contracts); injectivity of the encoding is not yet a proved lemma; ' + PNET),
 'C07': dict(
   text='tcp::repl PSH|ACK arm: answered iff (table has the flow cookie or ack == cookie+1), seq/ack arithmetic exact with wrapping, PSH iff payload; FIN|ACK answered with FIN|ACK seq+1; bare ACK/RST silent; every other combination silent.',
   note='proved over cookie-keyed table state; identifying "flow" with "cookie" needs A_inj (no cookie collision), which is FALSE on the unchanged tree: known finding, replayed on every run; ' + PNET),
 'C08': dict(
   text='Frame conditions: every function under contract other than tcp::repl/add_tcb proves final(w).contable == old(w).contable; tcp::repl proves forall k != cookie(own tuple): table[k] unchanged; functions without the World parameter cannot name the table at all.',
   note='under A_inj (known finding: computable cookie collision with the constant key [0,0]); the syntactic scan that CONTABLE is the only mutable static is not yet built; ' + PNET),
 'C09': dict(
   text='tcp::repl: table\' == table, or (PSH|ACK and ack == cookie+1 and cookie not present and dom\' == dom + {cookie}); add_tcb idempotent; all other layer functions leave the table unchanged.',
   note=PNET),
 'C10': dict(
   text='Smack::inner_match/inner_match_shift7/search_next/search_next_end are proved memory-safe and EQUAL to a reference run (scan/next_spec/next_end_spec) over the compiled table for every well-formed table, input and offset (loop invariants, no bound); proto::repl is proved to identify by exactly that run from the stored per-flow state (TCP) or BASE_STATE followed by the END symbol (UDP) and to answer nothing through a signature-dispatched responder when the run reports no match. Ground: wf() and the id range are evaluated on the table dumped from the real binary, and the language of that table is compared with the signature set read from the current source by exhaustive product exploration over byte classes (297 product states).',
   note='the product explorer (tools/ground.py, Python) is in the trusted base; lazy_static initialise-once semantics assumed (R3); the 8 known discrepancy classes (wildcard shadowing) are known findings, any other class is a violation; "answered by that protocol\'s responder" composes with responder contracts that are still assumed (trusted stubs listed in the evidence); segmentation lemma scan(a++b) not yet proved'),
 'C11': dict(
   text='The matcher is proved segmentation independent (lemma_scan_concat / lemma_next_concat: search_next over a segment that reports nothing, continued from the stored state over the next segment, equals search_next over the concatenation); proto::repl is proved to thread exactly that state through the per-flow record; http_parse is proved equal to the reference parser http_run started from the per-flow parser state, rpc_parse consumes one byte per step from the per-flow state (no look-ahead), so the parser state after any segmentation of the bytes it is shown is the one-shot state; the reply is produced exactly when the state becomes CONTENT / End and only bare ACKs before (tcp::repl: PSH iff payload reply). Ground: the known dispatcher finding is replayed on every run.',
   note='KNOWN FINDING: bytes that arrive before identification completes are never shown to the HTTP/RPC parser, so a cut inside the signature changes the outcome; the concatenation lemma for http_run itself (method phase + per-byte phase) is not yet a proved lemma; rpc_parse decoding is an invariant, not an equality with a fold'),
 'C12': dict(
   text='Per-protocol clauses proved so far: ARP op != 1, ICMP type != 8, ICMPv6 type not in {128,135} or code != 0, TCP flags == SYN|ACK or RST or bare ACK => no reply (iff postconditions of the responders).',
   note='STUN class != Request => no STUN response, DNS QR=1 => no DNS response are proved; SMB1 flag 0x80 / SMB2 flag bit 0 set => no SMB response is proved (C17 contracts); PARTIAL: RPC reply and the reflection-chain bound are not yet under contract'),
 'C13': dict(
   text='http_parse is proved memory-safe and terminating (lexicographic measure; the `i -= 1` after the method matcher is safe because every match row of the compiled HTTP automaton reports exactly one id -- ground fact) and EQUAL to the reference parser http_run (method automaton = run of the compiled table; request line and header automaton byte by byte, written from RFC 2616 5.1 with relaxed line ends); http::repl answers iff that parser, started from the flow state (TCP) or fresh (UDP), ends in CONTENT, so FAIL is absorbing and nothing is sent before the empty line. The response is proved to be P0 ++ date ++ P1 ++ dec(|content|) ++ P2 ++ content ++ P3 with the literal pieces taken from the format! template in the source; lemma_http_template evaluates on those pieces: starts "HTTP/1.1 401", P1 ends "Content-Length: ", P2 contains "\\nWWW-Authenticate: " and ends with the first empty line, P3 is empty (Content-Length == body bytes).',
   note='the nine methods are recognised by the compiled HTTP_SMACK table (ground: wf, one id per row); grammar-level lemmas (which request lines reach CONTENT) are not yet proved, so "malformed request line => silence" is claimed only through FAIL-absorption of the reference automaton; chrono date string assumed LF-free and <= 64 bytes; Display of usize = dec(n); byte2str trusted'),
 'C14': dict(
   text='Per-function contracts on the whole DNS dissector stack (PacketDissector, DNSHeader, DNSQuery, DNSRR, DNSPacket; trait MPacket with a ghost invariant member): representation invariants preserved by every parse step for all byte sequences; DNSHeader::try_from decodes exactly the six big-endian words and the flag bits (agreement invariant over the consumed prefix); header/question/RR serialisers equal byte-level spec functions; header.repl = same id, QR=1, opcode and RD copied, AA=1, ANCOUNT=QDCOUNT; question.repl answers iff class IN and type A and then with owner name ++ A/IN ++ TTL 43200 ++ RDLENGTH ++ the IPv4 address the query was sent to; DNSPacket::repl answers nothing when QR=1 or when any question is not IN/A (all-or-nothing) and its reply is at most 36876 bytes for frames <= 4096 bytes (size accounting invariant).',
   note='PARTIAL: the end-to-end theorem reply == dns_response_spec(query bytes) (parse/serialise round trips of questions and records inside DNSPacket::repl) is not proved; name parsing is byte-oriented, not label-aware (a label containing a 00 byte ends the name early: design-round finding, not yet turned into an obligation); messages with additional/authority records are never answered (parser has no states for them)'),
 'C15': dict(
   text='stun::repl is proved to answer iff the payload is at least 20 + declared length bytes long, class bits == Request and method == Binding (decoded per RFC 5389 figure 3, all twelve method bits), and then with exactly stun_response_spec: type 0x0101, length = 4 + attribute length, the request\'s 16 id bytes, one MAPPED-ADDRESS (family 1|2, observed source port and address). Attribute parsing (TryFrom, get_attributes loop) is proved total and in-bounds for every TLV layout; the change-port effect is proved equal to the TLV-walk predicate stun_change_port_req and applied exactly once (port + 1 mod 2^16).',
   note='to_be_bytes/byteorder::read_u128 inverse through the uninterpreted be_bytes16; u8->u8 try_into identity assumed (std reflexive From); identification of STUN payloads is the dispatcher\'s part (C10, with its known findings)'),
 'C16': dict(
   text='rpc_parse (read_u32/read_string state machine) is proved panic-free for every byte sequence under the representation invariant rpc_state_wf (field in progress < 256^bytes read, counted strings only entered with a positive count), which makes value*256+byte and data_len-1 safe in debug and release arithmetic; get_nth_byte/push_u32 equal the big-endian byte specs; build_repl is proved to return xid ++ reply/accepted/null-verifier header and then, in the stated precedence, PROG_MISMATCH(2,4) for versions outside 2..4, SUCCESS for procedure 0, the portmapper body for program 100000, PROG_UNAVAIL otherwise, 4-byte aligned; repl_tcp prefixes a record mark with the last-fragment bit and a length equal to the bytes that follow; the two panic!("Wrong RPC version") are unreachable (callee precondition 2 <= version <= 4).',
   note='build_repl_portmap and push_string_pad (String/format!/str matching) are ASSUMED contracts: the clauses "GETPORT/GETADDR/DUMP advertise exactly the contacted IP, port and netid" and XDR string padding are not verified; field decoding of rpc_parse is stated as an invariant, not yet as equality with the big-endian words of the stream'),
 'C17': dict(
   text='Every dissector of smb.rs (NBTSession<T>, SMB1/SMB2 header, Negotiate, Session-Setup, payload enums) carries four ghost members declared on the MPacket trait: inv (representation invariant: counters in range, partially read little-endian fields < 256^i, unread fields 0), count (bound on the byte counters, so `i += 1` cannot overflow), tracks(s) ("the fields are what the request bytes s say", little-endian accumulation per dissector.rs read_ule16/32/64) and answers(s, r) (the response relation written from the statement). parse is proved to preserve inv and to turn tracks(s) into tracks(s.push(byte)) for every byte and state; repl is proved to return only r with answers(s, r). Composed in repl_smb1/repl_smb2 (loop invariant over the payload): a reply r to the payload s satisfies: NetBIOS type 0 and 24-bit length == |r|-4; SMB1: magic, command == s.command, status 0, flag 0x80 set, PIDHigh/TID/PIDLow/UID/MID bytes == the request bytes, request flag 0x80 clear and command in {0x72,0x73}; Negotiate: WordCount 17, ChallengeLength 0, ByteCount == bytes that follow (GUID + blob), blob present at the end, DialectIndex < number of dialects parsed; Session-Setup: WordCount 4, SecurityBlobLength == |blob| at offset 11, ByteCount == bytes that follow; SMB2: magic, StructureSize 64, status 0, command echoed, response flag set, MessageId/AsyncId/SessionId bytes == request bytes, request flag bit 0 clear and command in {0,1}; Negotiate: StructureSize 65, DialectRevision is a supported dialect that occurs in the request\'s dialect array (so no reply if none is supported), client GUID echoed, SecurityBufferOffset 0x80 == 64+64 where the blob starts, SecurityBufferLength == |blob|; Session-Setup: StructureSize 9, offset 0x48 == 64+8, length == |blob|, blob ends the message.',
   note='the two closures (`.iter().position(|x| ..)`, `.iter().find(|(d,_)| ..)`) are lifted verbatim into helpers with ASSUMED contracts (index in range / element satisfies the predicate); the `for dialect in [..]` loop with `continue` is desugared mechanically into an indexed while (rule R28); SystemTime is a shim (clock in [1970, 2^40 s)); SMB1 DialectIndex is proved to index a parsed dialect but the parsed dialect list is not tied back to the request bytes (String contents are not modelled); a request whose dialect list contains duplicates, or whose DialectCount is 0, is never answered (HashSet length never reaches the count): observed, not part of the statement as formalised (reply-conditional)'),
 'C18': dict(
   text='ssh_parse is proved (loop invariant, lexicographic termination measure for the re-read in state LF) to compute exactly the reference automaton ssh_run written from RFC 4253 4.2; ssh::repl answers iff that automaton ends in EOB and then with exactly "SSH-2.0-1\\r\\n". Lemmas over ssh_run: every string "SSH-" (digit|.)* "-" software [SP comment] CR LF (software without SP/CR, comment without CR) is accepted; strings without a CR LF pair or not starting "SSH-" are never accepted; run(a++b) = run(run(a), b). ghost::repl is proved to return "Gh0st" ++ le32(total length) ++ le32(1) ++ zlib([0]) with the declared total equal to the frame length.',
   note='gray zone left unconstrained (empty software, lone CR inside software/comment, which the code tolerates); that the leading bytes are SSH-2.0/SSH-1.99 is the dispatcher\'s part (C10); flate2 is an assumed contract (output inflates to the input; length bound); byte2str (log rendering) trusted'),
 'C19': dict(
   text='(a) functional postconditions: ssh::repl, ghost::repl, http::repl, the matcher/dispatch clauses of proto::repl are proved to be functions of the payload (and per-flow parser state / clock) only; stun::repl places exactly (source IP, source port) in MAPPED-ADDRESS, DNS answers place exactly the destination IPv4 address in RDATA. (b) type-level frame: unit u_frame re-verifies ssh, ghost and http responders against an OPAQUE ClientInfo (no readable field), so any read of a port, address or transport in these responders is a named obligation that fails; L4 hands the payload up unconditionally (udp::repl, tcp::repl).',
   note='SMB responders are proved to answer as a relation between request bytes and reply bytes only (answers(s, r) never mentions ClientInfo) but are not in the opaque-type unit; portmapper address/port placement rests on the assumed build_repl_portmap contract; proto::repl reads client_info.transport/cookie only for the TCP-without-cookie guard (visible in its contract)'),
 'C20': dict(
   text='Ghost event log threaded through every layer function (World parameter): each appends a well-nested account recv . inner . (send|drop) of its own layer, terminal verb send iff it returns a reply, logged packet bytes are the request / the reply; proved per function and composed up to masscanned::reply.',
   note='MetaLogger is a shim (assumed to forward each event once); console/logfmt line syntax not yet under contract'),
}

PENDING = 'contracts for the application responders are not built yet in this revision (DESIGN.md section 5 gives the plan); no check is registered, nothing is claimed'

def main():
    props = [json.loads(l) for l in open(os.path.join(VERIF, 'properties.jsonl'))]
    m = {"version": 1,
         "setup_cmd": "python3 tools/gen_pnet_shim.py >/dev/null && ./check --units >/dev/null && python3 tools/replay.py --build-only",
         "hooks": {"guard": "masscanned_verif",
                   "enable": "RUSTFLAGS='--cfg masscanned_verif' cargo build --offline --target-dir /verif/build/target  (then MASSCANNED_VERIF=1 selects the replay driver in main())",
                   "baseline_off_cmd": "cd /repo && cargo test --workspace --no-fail-fast --offline",
                   "source_commits": ["2fcb075", "b336954"], "add_only": True},
         "engines": [
             {"name": "verus", "path": "tools/ (extract/splice/run), contracts/*.vspec, shim/, spec/, units/", "serves_properties": sorted(CLAIMS),
              "kind_free_text": "deductive verifier; contracts spliced onto functions extracted verbatim from /repo/src on every run"},
             {"name": "ground", "path": "tools/ground.py, tools/replay.py", "serves_properties": ["C01", "C07", "C08", "C10", "C11", "C13"],
              "kind_free_text": "closed obligations and witness replay executed on the hook binary rebuilt from /repo"}],
         "checks": [], "not_applicable": [],
         "notes": "exit 2 from a check means undecided (lost extraction anchor, front-end error, resource limit, vacuous contract, unlisted assumption), never a violation"}
    for p in props:
        pid = p['id']
        if pid in CLAIMS:
            c = CLAIMS[pid]
            m['checks'].append({
                "property_id": pid, "quick_cmd": "./check %s --tier quick" % pid, "thorough_cmd": "./check %s --tier thorough" % pid,
                "evidence_file": "evidence/%s.json" % pid, "replay_cmd_template": "./check %s --replay {path}" % pid, "engine": "verus",
                "level_claimed": {"category": "proof", "text": c['text'], "design_ref": "DESIGN.md section 5 (%s)" % pid},
                "level_note": c['note'], "technique": TECH})
        else:
            m['not_applicable'].append({"property_id": pid, "reason": PENDING})
    json.dump(m, open(os.path.join(VERIF, 'MANIFEST.json'), 'w'), indent=1)

if __name__ == '__main__':
    main()
