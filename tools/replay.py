"""Replay driver client: builds the hook binary from /repo's current working tree (cfg
masscanned_verif) and talks to it over stdin/stdout.  Used for (a) replaying witnesses of failed
obligations on the real code, (b) ground obligations on compiled constants."""
import os, subprocess, struct, socket, json, time

VERIF = os.path.dirname(os.path.dirname(os.path.abspath(__file__)))
TARGET = os.path.join(VERIF, 'build', 'target')

class BuildError(Exception):
    pass

_built = {}
def build(repo='/repo', release=False):
    key = (repo, release)
    if key in _built:
        return _built[key]
    env = dict(os.environ)
    env['RUSTFLAGS'] = '--cfg masscanned_verif'
    env['CARGO_NET_OFFLINE'] = 'true'
    cmd = ['cargo', 'build', '--offline', '--quiet', '--target-dir', TARGET]
    if release:
        cmd.append('--release')
    p = subprocess.run(cmd, cwd=repo, env=env, stdout=subprocess.PIPE, stderr=subprocess.PIPE)
    if p.returncode != 0:
        raise BuildError(p.stderr.decode('utf-8', 'replace')[-3000:])
    path = os.path.join(TARGET, 'release' if release else 'debug', 'masscanned')
    _built[key] = path
    return path

class Driver:
    def __init__(self, repo='/repo', release=False, stderr=None):
        self.path = build(repo, release)
        env = dict(os.environ); env['MASSCANNED_VERIF'] = '1'
        self.p = subprocess.Popen([self.path], stdin=subprocess.PIPE, stdout=subprocess.PIPE,
                                  stderr=stderr if stderr is not None else subprocess.DEVNULL, env=env)
        self.log_lines = []
    def cmd(self, line):
        self.p.stdin.write((line + '\n').encode()); self.p.stdin.flush()
        while True:
            l = self.p.stdout.readline()
            if not l:
                raise RuntimeError('driver died (process aborted) on: ' + line[:80])
            l = l.decode('utf-8', 'replace').rstrip('\n')
            if l.startswith('@@ '):
                return l[3:]
            self.log_lines.append(l)
    def cfg(this, **kw):
        return this.cmd('cfg ' + ' '.join('%s=%s' % (k, v) for k, v in kw.items()))
    def frame(self, b):
        """returns ('reply', bytes) | ('none', None) | ('panic', msg)"""
        r = self.cmd('frame ' + b.hex())
        if r.startswith('reply '):
            return ('reply', bytes.fromhex(r[6:]))
        if r == 'none':
            return ('none', None)
        return ('panic', r[6:])
    def tablesize(self):
        return int(self.cmd('tablesize').split()[1])
    def reset(self):
        return self.cmd('reset')
    def cookie(self, src, dst, sport, dport):
        return int(self.cmd('cookie %s %s %d %d' % (src, dst, sport, dport)).split()[1])
    def dump_smack(self, which):
        r = self.cmd('dump-smack ' + which)
        return json.loads(r[len('smack '):])
    def take_log(self):
        l = self.log_lines; self.log_lines = []
        return l
    def close(self):
        try:
            self.p.stdin.close(); self.p.wait(timeout=5)
        except Exception:
            self.p.kill()

# ----------------------------------------------------------------------------- frame builders
def mac(s):
    return bytes(int(x, 16) for x in s.split(':'))

def csum(data):
    if len(data) % 2: data += b'\0'
    s = sum(struct.unpack('!%dH' % (len(data) // 2), data))
    while s >> 16: s = (s & 0xffff) + (s >> 16)
    return (~s) & 0xffff

def eth(dst, src, ethertype, payload):
    return mac(dst) + mac(src) + struct.pack('!H', ethertype) + payload

def ip4(src, dst, proto, payload, ttl=64, ihl=5, total=None, flags=0):
    total = 20 + len(payload) if total is None else total
    h = struct.pack('!BBHHHBBH4s4s', (4 << 4) | ihl, 0, total, 0, flags << 13, ttl, proto, 0, socket.inet_aton(src), socket.inet_aton(dst))
    c = csum(h)
    return h[:10] + struct.pack('!H', c) + h[12:] + payload

def ip6(src, dst, nh, payload, hlim=64, plen=None):
    plen = len(payload) if plen is None else plen
    return struct.pack('!IHBB', 6 << 28, plen, nh, hlim) + socket.inet_pton(socket.AF_INET6, src) + socket.inet_pton(socket.AF_INET6, dst) + payload

def udp(sport, dport, payload, ck=0):
    return struct.pack('!HHHH', sport, dport, 8 + len(payload), ck) + payload

def tcp(sport, dport, seq, ack, flags, payload=b'', win=1024, doff=5):
    return struct.pack('!HHIIHHHH', sport, dport, seq, ack, (doff << 12) | flags, win, 0, 0) + payload

def icmp(t, c, rest=b''):
    h = struct.pack('!BBH', t, c, 0) + rest
    return h[:2] + struct.pack('!H', csum(h)) + h[4:]

def arp(op, sha, spa, tha, tpa, htype=1, ptype=0x0800, hlen=6, plen=4):
    return struct.pack('!HHBBH', htype, ptype, hlen, plen, op) + mac(sha) + socket.inet_aton(spa) + mac(tha) + socket.inet_aton(tpa)

MAC = 'c0:ff:ee:c0:ff:ee'
PEER = '02:00:00:00:00:01'

FIN, SYN, RST, PSH, ACK, URG, ECE, CWR, NS = 1, 2, 4, 8, 16, 32, 64, 128, 256

if __name__ == '__main__':
    import sys
    if '--build-only' in sys.argv:
        print(build()); sys.exit(0)
    d = Driver()
    print(d.cfg(mac=MAC))
    f = eth(MAC, PEER, 0x0800, ip4('10.0.0.2', '10.0.0.1', 1, icmp(8, 0, b'\0\1\0\2hello')))
    print(d.frame(f))
    print(d.frame(b'\0' * 10))
