"""Runs Verus on a spliced unit and classifies the outcome.

status:
  'ok'         every function verified
  'fail'       at least one *verification* failure (each is a named obligation)
  'undecided'  lost anchor, rustc error in the spliced file, rlimit/timeout, tool crash
"""
import os, sys, json, re, subprocess, time, hashlib
import splice, vspec

VERIF = splice.VERIF
VERUS = os.environ.get('VERUS', 'verus')

VERIF_MSG = [
    (r'postcondition not satisfied', 'postcondition'),
    (r'precondition not satisfied', 'precondition'),
    (r'assertion failed', 'assertion'),
    (r'^requires not satisfied', 'assertion'),   # the `requires` of an `assert .. by(bit_vector) requires ..` step
    (r'invariant not satisfied', 'invariant'),
    (r'loop invariant', 'invariant'),
    (r'possible arithmetic underflow/overflow', 'arith-overflow'),
    (r'possible division by zero', 'div-zero'),
    (r'possible bit shift underflow/overflow', 'shift-overflow'),
    (r'index out of bounds|possible.*out of bounds', 'index'),
    (r'decreases not satisfied|could not prove termination', 'termination'),
    (r'recommendation not met', None),
    (r'unreachable', 'unreachable'),
    (r'panic', 'panic'),
    (r'failed to cast|truncat', 'cast'),
]
UNDECIDED_MSG = [r'Resource limit \(rlimit\) exceeded', r'rlimit', r'timed out', r'solver']

def classify_message(msg):
    for rx, kind in VERIF_MSG:
        if re.search(rx, msg):
            return kind
    return None

def origin_of(linemap, line):
    if 1 <= line <= len(linemap):
        return linemap[line - 1]
    return None

def run_verus(path, extra=None, timeout=600, multiple_errors=20):
    cmd = [VERUS, path, '--output-json', '--time', '--error-format=json', '--multiple-errors', str(multiple_errors)] + ([] if (extra and '--rlimit' in extra) else ['--rlimit', '60']) + (extra or [])
    t0 = time.time()
    try:
        p = subprocess.run(cmd, stdout=subprocess.PIPE, stderr=subprocess.PIPE, timeout=timeout, cwd=os.path.dirname(path))
        out, err, rc = p.stdout.decode('utf-8', 'replace'), p.stderr.decode('utf-8', 'replace'), p.returncode
    except subprocess.TimeoutExpired:
        return {'timeout': True, 'wall_s': time.time() - t0, 'cmd': ' '.join(cmd)}
    res = {'rc': rc, 'wall_s': time.time() - t0, 'cmd': ' '.join(cmd), 'timeout': False}
    try:
        # stdout may contain non-JSON lines before the JSON object
        k = out.index('{')
        res['json'] = json.loads(out[k:])
    except Exception:
        res['json'] = None
        res['stdout'] = out[-4000:]
    diags = []
    raw = []
    for l in err.split('\n'):
        l = l.strip()
        if l.startswith('{'):
            try:
                diags.append(json.loads(l))
            except Exception:
                raw.append(l)
        elif l:
            raw.append(l)
    res['diags'] = diags
    res['raw_stderr'] = raw[-50:]
    return res

def enclosing_fn(report, line):
    best = None
    for sp in report.get('fn_spans', []):
        if sp['start'] <= line <= sp['end']:
            if best is None or sp['start'] >= best['start']:
                best = sp
    return best

def clause_for(report, origin):
    if not origin or origin['kind'] != 'vspec':
        return None
    rel = os.path.relpath(origin['file'], VERIF) if os.path.isabs(origin['file']) else origin['file']
    for c in report['clauses']:
        if c['vspec'] == rel and c['first'] <= origin['line'] <= c['last']:
            return c
    return None

def analyse(unit, vr, linemap, report, gen_path='', frame_type=None):
    """Turn verus diagnostics into failures / undecided reasons."""
    failures = []
    undecided = []
    if vr.get('timeout'):
        undecided.append('verus timed out')
        return failures, undecided
    for d in vr['diags']:
        lvl = d.get('level')
        if lvl != 'error':
            continue
        msg = d.get('message', '')
        if msg.startswith('aborting due to'):
            continue
        code = (d.get('code') or {}).get('code') if d.get('code') else None
        kind = classify_message(msg)
        if any(re.search(rx, msg) for rx in UNDECIDED_MSG):
            undecided.append('verus: ' + msg)
            continue
        if code in ('E0609', 'E0616', 'E0599') and frame_type and frame_type in msg:
            # rule C19/u_frame: the unit is compiled against an opaque ClientInfo; touching one of its fields is
            # the one front-end error that is a named obligation, not an undecided run
            sp0 = (d.get('spans') or [{}])[0]
            o = origin_of(linemap, sp0.get('line_start', 0))
            fs_ = enclosing_fn(report, sp0.get('line_start', 0))
            fn_ = fs_['fn'] if fs_ else '?'
            site_ = ('%s:%d' % (o['file'], o['line'])) if o and o.get('file') else None
            failures.append({'obligation': '%s/%s/frame/reads-ClientInfo@%s' % (unit, fn_, site_), 'unit': unit, 'fn': fn_, 'kind': 'frame',
                             'message': msg, 'tags': ['C19'], 'clause': 'the responder does not read any field of ClientInfo (ports, addresses)',
                             'clause_at': None, 'site': site_, 'site_text': (sp0.get('text') or [{}])[0].get('text', '').strip() if sp0.get('text') else '',
                             'spans': [], 'rendered': d.get('rendered', '')})
            continue
        if kind is None or code:
            undecided.append('front-end error: %s%s' % (msg, (' [%s]' % code) if code else ''))
            continue
        spans = []
        for sp in d.get('spans', []):
            # a span inside a macro definition: use the outermost call site
            e = sp.get('expansion')
            while e:
                sp2 = e['span']
                sp = dict(sp2, is_primary=sp.get('is_primary'), label=sp.get('label'))
                e = sp2.get('expansion')
            if os.path.basename(sp.get('file_name', '')) != os.path.basename(gen_path):
                spans.append({'gen_line': 0, 'primary': sp.get('is_primary'), 'label': sp.get('label'),
                              'origin': {'kind': 'vstd', 'file': sp.get('file_name'), 'line': sp['line_start']},
                              'text': (sp['text'][0]['text'].strip() if sp.get('text') else '')})
                continue
            o = origin_of(linemap, sp['line_start'])
            spans.append({'gen_line': sp['line_start'], 'primary': sp.get('is_primary'), 'label': sp.get('label'),
                          'origin': o, 'text': (sp['text'][0]['text'].strip() if sp.get('text') else '')})
        can = [s for s in spans if s['origin'] and s['origin']['kind'] == 'canary']
        if can:
            failures.append({'obligation': '%s/%s/canary' % (unit, can[0]['origin']['file']), 'unit': unit, 'fn': can[0]['origin']['file'],
                             'kind': 'canary', 'message': msg, 'tags': [], 'clause': None, 'clause_at': None, 'site': None, 'site_text': '', 'spans': spans, 'rendered': ''})
            continue
        prim = [s for s in spans if s['primary']]
        sec = [s for s in spans if not s['primary']]
        fnspan = enclosing_fn(report, prim[0]['gen_line']) if prim else None
        # a postcondition inherited from a trait declaration: the clause span lies in the trait, the exit
        # span ("at the end of the function body" / "at this exit") lies in the impl method that failed it
        for s_ in spans:
            if s_.get('label') and re.search(r'end of the function body|at this exit|returned here', s_['label']) and s_['gen_line']:
                fs2 = enclosing_fn(report, s_['gen_line'])
                if fs2:
                    fnspan = fs2
                break
        fn = fnspan['fn'] if fnspan else '?'
        # the clause: a vspec-origin span (secondary for pre/post; primary for invariants/asserts in spliced text)
        clause = None
        clause_span = None
        for s in sec + prim:
            c = clause_for(report, s['origin'])
            if c:
                clause = c; clause_span = s; break
        site = None
        for s in prim + sec:
            if s['origin'] and s['origin']['kind'] == 'repo':
                site = s['origin']; break
        tags = []
        if clause is not None:
            tags = list(clause['tags'])
            # a clause declared on a trait method and failed by an impl method: the failure also concerns every property
            # the impl method's own contract serves (e.g. the DNS dissectors' `tracks` step is the trait clause, tagged for
            # the SMB property that introduced it, but a DNS impl failing it breaks the DNS property)
            if clause.get('fn') and clause.get('fn') != fn:
                for f_ in report['functions_verified']:
                    if f_['fn'] == fn:
                        tags = sorted(set(tags) | set(f_.get('tags') or []))
        if kind == 'precondition':
            # a callee's requires at a call site: the callee would panic / misbehave => safety (C01) unless tagged
            if not tags:
                tags = ['C01']
        elif kind in ('arith-overflow', 'div-zero', 'shift-overflow', 'index', 'termination', 'unreachable', 'panic', 'cast'):
            tags = ['C01']
        if not tags and fn == '?':
            # obligation inside a @raw block (lemma): tags from the closest preceding doc comment naming properties
            for sp_ in prim + sec:
                o_ = sp_['origin']
                if o_ and o_['kind'] == 'vspec':
                    try:
                        ls = open(o_['file']).read().split('\n')
                        for k_ in range(o_['line'] - 1, max(-1, o_['line'] - 80), -1):
                            if ls[k_].lstrip().startswith('///') and re.search(r'\bC\d{2}\b', ls[k_]):
                                tags = re.findall(r'\bC\d{2}\b', ls[k_]); break
                            if ls[k_].startswith('@'): break
                    except Exception:
                        pass
                    break
        if tags and kind not in ('precondition',) and False:
            pass
        elif not tags:
            # assertion / untagged clause: serves whatever the function's contract serves
            for f in report['functions_verified']:
                if f['fn'] == fn:
                    tags = list(f['tags'])
            if not tags:
                tags = ['C01']
        vs_assert = None
        if clause is None and kind == 'assertion':
            for sp_ in prim + sec:
                o_ = sp_['origin']
                if o_ and o_['kind'] == 'vspec':
                    vs_assert = o_
                    try:
                        ltxt = open(o_['file']).read().split('\n')[o_['line'] - 1]
                        mo_ = vspec.TAG_RE.search(ltxt)
                        if mo_: tags = mo_.group(1).split()
                    except Exception:
                        pass
                    break
        if clause is not None:
            where = '%s:%d' % (clause['vspec'], clause['first'])
        elif vs_assert is not None:
            where = '%s:%d' % (os.path.relpath(vs_assert['file'], VERIF), vs_assert['line'])
        elif sec and sec[0]['origin'] and sec[0]['origin']['kind'] in ('shim', 'vstd') and site:
            where = '%s:%d(%s:%d)' % (site['file'], site['line'], os.path.basename(sec[0]['origin']['file']), sec[0]['origin']['line'])
        elif site:
            where = '%s:%d' % (site['file'], site['line'])
        else:
            where = 'gen:%d' % (prim[0]['gen_line'] if prim else 0)
        name = '%s/%s/%s@%s' % (unit, fn, kind, where)
        failures.append({'obligation': name, 'unit': unit, 'fn': fn, 'kind': kind, 'message': msg, 'tags': tags,
                         'clause': clause['text'] if clause else None,
                         'clause_at': ('%s:%d' % (clause['vspec'], clause['first'])) if clause else None,
                         'site': ('%s:%d' % (site['file'], site['line'])) if site else None,
                         'site_text': (prim[0]['text'] if prim else ''),
                         'spans': spans, 'rendered': d.get('rendered', '')})
    j = vr.get('json')
    if j is None and not failures:
        undecided.append('verus produced no JSON result: ' + ' | '.join(vr.get('raw_stderr', [])[-3:]))
    elif j is not None:
        r = j.get('verification-results', {})
        if r.get('encountered-vir-error'):
            if not undecided:
                undecided.append('verus front-end (VIR) error: ' + ' | '.join(vr.get('raw_stderr', [])[-3:]))
        # runs restricted with --verify-module carry no `success` key: errors == 0 and no encountered-error is success
        ok_ = r.get('success') if 'success' in r else (not r.get('encountered-error') and (r.get('errors') or 0) == 0)
        if not ok_ and not failures and not undecided:
            undecided.append('verus reported failure without a classified diagnostic (rc=%s): %s' % (vr.get('rc'), ' | '.join(vr.get('raw_stderr', [])[-3:])))
    return failures, undecided

def function_times(vr):
    res = []
    j = vr.get('json') or {}
    smt = (j.get('times-ms') or {}).get('smt') or {}
    for mod in smt.get('smt-run-module-times', []):
        for fb in mod.get('function-breakdown', []):
            res.append({'function': fb.get('function'), 'time_us': fb.get('time-micros'), 'rlimit': fb.get('rlimit'), 'success': fb.get('success')})
    return res

def isolate_clauses(name, outdir, repo, contracts, fn_disp, report):
    """A function hit the resource limit: verify each of its ensures clauses on its own (the other
    ensures clauses removed, everything else unchanged) to find out which obligation is the one that no
    longer verifies.  Returns (failures, undecided)."""
    from concurrent.futures import ThreadPoolExecutor
    clauses = [c for c in report['clauses'] if c['fn'] == fn_disp and c['section'] == 'ensures' and c.get('mode') == 'verify' and 'loop' not in c]
    segs = fn_disp.split('::')[:-1]
    k_ = 0
    while k_ < len(segs) and re.match(r'^[a-z_0-9]+$', segs[k_]): k_ += 1
    mod = '::'.join(segs[:k_])
    def one(cl):
        u = splice.Unit(name, repo=repo, contracts=contracts)
        u.clause_filter = {fn_disp: {cl['first']}}
        text, linemap = u.build()
        path = os.path.join(outdir, '%s_iso_%d.rs' % (name, cl['first']))
        open(path, 'w').write(text)
        extra = ['--rlimit', '60']
        if mod:
            extra += ['--verify-module', mod]
        vr = run_verus(path, extra=extra, multiple_errors=3)
        f, und = analyse(name, vr, linemap, u.report, path)
        try: os.remove(path)
        except OSError: pass
        return cl, f, und
    fails, undec = [], []
    with ThreadPoolExecutor(max_workers=8) as ex:
        for cl, f, und in ex.map(one, clauses):
            for x in f:
                if x['fn'] == fn_disp:
                    x['obligation'] = x['obligation'].replace('/%s/' % name, '/%s/' % name)
                    x['isolated'] = True
                    fails.append(x)
            for u_ in und:
                undec.append('clause %s:%d of %s alone: %s' % (cl['vspec'], cl['first'], fn_disp, u_))
    return fails, undec

def run_unit(name, outdir, repo='/repo', canary=False, contracts=None, extra=None, tag='', _exit_hints='auto'):
    """Build and verify one unit.  Returns a result dict.
    If obligations fail, the unit is verified once more with the proof hints that sit in front of a function's tail
    expression copied in front of its early `return` statements as well (hints are assertions the verifier checks, so
    a unit that verifies with the copies is verified); if that second text does not compile or still fails, the first
    result stands."""
    if not canary and _exit_hints == 'auto':
        r1 = run_unit(name, outdir, repo=repo, canary=canary, contracts=contracts, extra=extra, tag=tag, _exit_hints='no')
        if r1.get('status') == 'fail' and any(f.get('kind') in ('postcondition', 'assertion') for f in r1.get('failures', [])):
            r2 = run_unit(name, outdir, repo=repo, canary=canary, contracts=contracts, extra=extra, tag=tag + '_xh', _exit_hints='yes')
            if r2.get('status') == 'ok' and r2.get('exit_hint_copies'):
                r2['note'] = 'verified with the tail hints copied to early returns (%d copies)' % r2['exit_hint_copies']
                return r2
        return r1
    res = {'unit': name, 'canary': canary}
    t0 = time.time()
    try:
        u = splice.Unit(name, repo=repo, contracts=contracts)
        u.canary = canary
        u.copy_tail_hints = (_exit_hints == 'yes')
        text, linemap = u.build()
    except splice.LostAnchor as e:
        res.update(status='undecided', undecided=['lost anchor: %s' % e], failures=[], report=None, wall_s=time.time() - t0)
        return res
    except Exception as e:
        res.update(status='undecided', undecided=['splice error: %r' % e], failures=[], report=None, wall_s=time.time() - t0)
        return res
    os.makedirs(outdir, exist_ok=True)
    path = os.path.join(outdir, name + ('_canary' if canary else '') + tag + '.rs')
    open(path, 'w').write(text)
    if canary and not (extra and '--rlimit' in extra):
        # a vacuous contract proves `ensures <fresh bool>` at once; "not proved within a small limit" is the expected outcome
        extra = (extra or []) + ['--rlimit', '5']
    vr = run_verus(path, extra=extra, multiple_errors=(1 if canary else 20))
    failures, undecided = analyse(name, vr, linemap, u.report, path, frame_type=u.cfg.get('frame_type'))
    # a frame violation makes the rest of the front-end output irrelevant
    if any(f['kind'] == 'frame' for f in failures):
        undecided = []
    # resource limit in a function: isolate its clauses (only outside canary mode)
    if not canary:
        rl_fns = set()
        for d in vr.get('diags', []):
            if d.get('level') == 'error' and 'Resource limit' in d.get('message', ''):
                for sp in d.get('spans', []):
                    fs = enclosing_fn(u.report, sp['line_start'])
                    if fs: rl_fns.add(fs['fn'])
        if rl_fns:
            undecided = [x for x in undecided if 'Resource limit' not in x]
            for fnd in sorted(rl_fns):
                f2, u2 = isolate_clauses(name, outdir, repo, contracts, fnd, u.report)
                seen = set(x['obligation'] for x in failures)
                for x in f2:
                    if x['obligation'] not in seen:
                        seen.add(x['obligation']); failures.append(x)
                if not f2:
                    undecided.append('verus: resource limit exceeded in %s and no single clause fails in isolation' % fnd)
                undecided += [x for x in u2 if 'Resource limit' not in x]
    j = vr.get('json') or {}
    r = j.get('verification-results', {})
    res['exit_hint_copies'] = getattr(u, 'tail_hint_copies', 0)
    res.update(report=u.report, failures=failures, undecided=undecided,
               verified=r.get('verified'), errors=r.get('errors'), functions=function_times(vr),
               verus_wall_s=vr.get('wall_s'), wall_s=time.time() - t0, cmd=vr.get('cmd'), path=path,
               smt_ms=((j.get('times-ms') or {}).get('smt') or {}).get('total'))
    if undecided:
        res['status'] = 'undecided'
    elif failures:
        res['status'] = 'fail'
    elif r.get('success'):
        res['status'] = 'ok'
    else:
        res['status'] = 'undecided'
        res['undecided'] = ['verus did not report success']
    return res

if __name__ == '__main__':
    name = sys.argv[1]
    r = run_unit(name, os.path.join(VERIF, 'build'), canary='--canary' in sys.argv)
    print(r['status'], 'verified=%s errors=%s wall=%.1fs' % (r.get('verified'), r.get('errors'), r['wall_s']))
    for u in r['undecided']:
        print('UNDECIDED:', u)
    for f in r['failures']:
        print('FAIL', f['obligation'], f['tags'], '|', f['clause'] or f['site_text'])
