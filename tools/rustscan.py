"""Small Rust-aware scanner used by the extractor.

It does not parse Rust; it only needs to (1) skip comments / string / char literals,
(2) match braces, parentheses and brackets, (3) find item boundaries at nesting depth 0 of a
module or impl body, (4) find, inside a function body, loop headers and call sites.

Everything works on a *masked* copy of the text in which comments and literal contents are replaced
by spaces (same length, same newlines), so that offsets in the masked text are offsets in the
original text.
"""
import re

class ScanError(Exception):
    pass

def mask(src):
    """Return text of the same length with comments and string/char literal contents blanked.
    String delimiters are kept ("   "), comments become spaces."""
    out = list(src)
    n = len(src)
    i = 0
    def blank(a, b):
        for k in range(a, b):
            if out[k] != '\n':
                out[k] = ' '
    while i < n:
        c = src[i]
        if c == '/' and i + 1 < n and src[i+1] == '/':
            j = src.find('\n', i)
            if j < 0: j = n
            blank(i, j); i = j; continue
        if c == '/' and i + 1 < n and src[i+1] == '*':
            depth = 1; j = i + 2
            while j < n and depth > 0:
                if src.startswith('/*', j): depth += 1; j += 2
                elif src.startswith('*/', j): depth -= 1; j += 2
                else: j += 1
            blank(i, j); i = j; continue
        # raw strings r"..", r#".."#, br#".."#
        m = re.match(r'b?r(#*)"', src[i:i+40]) if c in 'br' else None
        if m and (i == 0 or not (src[i-1].isalnum() or src[i-1] == '_')):
            hashes = m.group(1)
            start = i + m.end()
            end = src.find('"' + hashes, start)
            if end < 0: raise ScanError('unterminated raw string')
            blank(start, end); i = end + 1 + len(hashes); continue
        if c == '"' or (c == 'b' and i + 1 < n and src[i+1] == '"' and (i == 0 or not (src[i-1].isalnum() or src[i-1] == '_'))):
            j = i + (2 if c == 'b' else 1)
            start = j
            while j < n and src[j] != '"':
                if src[j] == '\\': j += 2
                else: j += 1
            if j >= n: raise ScanError('unterminated string')
            blank(start, j); i = j + 1; continue
        if c == "'" or (c == 'b' and i + 1 < n and src[i+1] == "'" and (i == 0 or not (src[i-1].isalnum() or src[i-1] == '_'))):
            j = i + (2 if c == 'b' else 1)
            # char literal or lifetime?
            if j < n and src[j] == '\\':
                k = src.find("'", j + 2)
                if k < 0: raise ScanError('unterminated char')
                blank(j, k); i = k + 1; continue
            if j + 1 < n and src[j+1] == "'":
                blank(j, j + 1); i = j + 2; continue
            # multi-byte char literal like 'é' not expected; treat as lifetime
            i = j; continue
        i += 1
    return ''.join(out)

OPEN = {'(': ')', '[': ']', '{': '}'}
CLOSE = {')': '(', ']': '[', '}': '{'}

def match_close(m, i):
    """m: masked text, i: index of an opening bracket. Returns index of the matching closer."""
    stack = []
    n = len(m)
    j = i
    while j < n:
        c = m[j]
        if c in OPEN:
            stack.append(c)
        elif c in CLOSE:
            if not stack or stack[-1] != CLOSE[c]:
                raise ScanError('bracket mismatch at %d' % j)
            stack.pop()
            if not stack:
                return j
        j += 1
    raise ScanError('unclosed bracket at %d' % i)

def line_of(src, off):
    return src.count('\n', 0, off) + 1

IDENT = r'[A-Za-z_][A-Za-z0-9_]*'

class Item:
    """A syntactic item found at depth 0 of a module/impl/trait body."""
    def __init__(self, kind, name, start, end, attr_start, src, m):
        self.kind = kind          # fn struct enum impl trait const static type mod use macro
        self.name = name          # fn name / type name / 'impl X' / 'impl T for X'
        self.start = start        # offset of first token after attributes
        self.attr_start = attr_start  # offset of first attribute (== start if none)
        self.end = end            # offset one past the last char (closing brace or ';')
        self.src = src
        self.m = m
        self.children = []        # for impl/trait/mod
        self.body_open = None     # offset of '{' of the body (fn/impl/trait/mod/struct/enum)
        self.is_test = False
    @property
    def text(self):
        return self.src[self.start:self.end]
    @property
    def full_text(self):
        return self.src[self.attr_start:self.end]
    @property
    def attrs(self):
        return self.src[self.attr_start:self.start]
    def lines(self):
        return (line_of(self.src, self.attr_start), line_of(self.src, self.end - 1))

_kw = re.compile(r'\s*(?:(pub(?:\s*\([^)]*\))?)\s+)?(?:(default|unsafe|async|const(?=\s+fn)|extern(?:\s*"[^"]*")?)\s+)*'
                 r'(fn|struct|enum|union|impl|trait|const|static|type|mod|use|crate|macro_rules!|' + IDENT + r'!)')

def scan_items(src, m, a, b):
    """Scan items between offsets a and b (a module body, impl body, or the whole file)."""
    items = []
    i = a
    while i < b:
        # skip whitespace
        while i < b and m[i].isspace():
            i += 1
        if i >= b:
            break
        attr_start = i
        # attributes
        while m.startswith('#', i):
            j = i + 1
            if m.startswith('!', j): j += 1
            while m[j].isspace(): j += 1
            if m[j] != '[':
                raise ScanError('bad attribute at line %d' % line_of(src, i))
            k = match_close(m, j)
            i = k + 1
            while i < b and m[i].isspace(): i += 1
        start = i
        mo = _kw.match(m, i)
        if not mo:
            raise ScanError('cannot classify item at line %d: %r' % (line_of(src, i), src[i:i+40]))
        kw = mo.group(3)
        j = mo.end()
        name = None
        body_open = None
        if kw in ('fn', 'struct', 'enum', 'union', 'trait', 'const', 'static', 'type', 'mod'):
            mo2 = re.compile(r'\s*(?:mut\s+)?(' + IDENT + ')').match(m, j)
            name = mo2.group(1)
            j = mo2.end()
        # find end: first '{' or ';' at depth 0 of (), [], <> is not tracked (generics contain no braces/semicolons)
        k = j
        end = None
        if kw == 'use' or re.match(r'\s*extern\s+crate\b', m[start:start+20]):
            k2 = m.find(';', j)
            end = k2 + 1
            k = b
            if kw != 'use':
                kw = 'use'
        while k < b:
            c = m[k]
            if c in '([':
                k = match_close(m, k) + 1; continue
            if c == '{':
                body_open = k
                e = match_close(m, k)
                end = e + 1
                break
            if c == ';':
                end = k + 1
                break
            if c == '=' and kw in ('const', 'static', 'type'):
                # initialiser may contain braces: scan to ';' at depth 0
                k2 = k + 1
                while k2 < b:
                    c2 = m[k2]
                    if c2 in OPEN:
                        k2 = match_close(m, k2) + 1; continue
                    if c2 == ';':
                        break
                    k2 += 1
                end = k2 + 1
                break
            k += 1
        if end is None:
            raise ScanError('unterminated item at line %d' % line_of(src, start))
        if kw == 'struct' and body_open is not None:
            pass
        if kw == 'struct' and body_open is None:
            pass
        # tuple struct `struct X(..);` handled by the ';' case above (parens skipped)
        if kw == 'impl':
            hdr = ' '.join(src[mo.end():body_open].split())
            # strip generic params directly after impl
            h = hdr
            if h.startswith('<'):
                depth = 0
                for q, ch in enumerate(h):
                    if ch == '<': depth += 1
                    elif ch == '>':
                        depth -= 1
                        if depth == 0:
                            h = h[q+1:].strip(); break
            if ' where ' in h:
                h = h.split(' where ')[0].strip()
            name = 'impl ' + h
        if kw.endswith('!') and kw != 'macro_rules!':
            name = kw
            kind = 'macro'
        elif kw == 'macro_rules!':
            kind = 'macro'; name = 'macro_rules!'
        else:
            kind = kw
        it = Item(kind, name, start, end, attr_start, src, m)
        it.body_open = body_open
        attrs = src[attr_start:start]
        if re.search(r'#\[cfg\((test|masscanned_verif)\)\]', attrs):
            it.is_test = True
        if kind in ('impl', 'trait', 'mod') and body_open is not None:
            it.children = scan_items(src, m, body_open + 1, end - 1)
        items.append(it)
        i = end
    return items

class FnParts:
    """Pieces of a `fn` item needed for splicing."""
    def __init__(self, item):
        src, m = item.src, item.m
        self.item = item
        s = item.start
        mo = re.compile(r'(?:pub(?:\s*\([^)]*\))?\s+)?(?:(?:default|unsafe|async|const|extern(?:\s*"[^"]*")?)\s+)*fn\s+' + IDENT).match(m, s)
        if not mo:
            raise ScanError('not a fn: %r' % src[s:s+30])
        j = mo.end()
        while m[j].isspace(): j += 1
        if m[j] == '<':
            depth = 0
            while True:
                if m[j] == '<': depth += 1
                elif m[j] == '>' and m[j-1] != '-':
                    depth -= 1
                    if depth == 0: break
                j += 1
            j += 1
            while m[j].isspace(): j += 1
        if m[j] != '(':
            raise ScanError('fn without params?')
        self.params_open = j
        self.params_close = match_close(m, j)
        self.body_open = item.body_open     # None for trait method declarations
        sig_end = item.body_open if item.body_open is not None else item.end - 1
        # return type
        tail = m[self.params_close + 1:sig_end]
        mo3 = re.search(r'->', tail)
        self.ret_start = self.ret_end = None
        self.where_start = None
        mo4 = re.search(r'\bwhere\b', tail)
        if mo4:
            self.where_start = self.params_close + 1 + mo4.start()
        if mo3:
            self.ret_start = self.params_close + 1 + mo3.end()
            self.ret_end = self.where_start if self.where_start is not None else sig_end
        self.sig_end = sig_end

def find_loops(m, a, b):
    """Offsets of loop keywords (while / for / loop) between a and b in source order, with the
    offset of the '{' that opens each loop body."""
    res = []
    for mo in re.finditer(r'\b(while|for|loop)\b', m[a:b]):
        k = a + mo.start()
        kw = mo.group(1)
        # `for` in `impl X for Y` / HRTB does not occur inside fn bodies we handle; `for<'a>` guard:
        j = a + mo.end()
        if kw == 'for' and m[j:j+1] == '<':
            continue
        # body open: first '{' at paren/bracket depth 0 after the header
        q = j
        while q < b:
            c = m[q]
            if c in '([':
                q = match_close(m, q) + 1; continue
            if c == '{':
                # struct-literal braces cannot appear unparenthesised in a loop header
                break
            q += 1
        res.append((kw, k, q))
    return res

def parse_file(path):
    src = open(path, encoding='utf-8').read()
    m = mask(src)
    items = scan_items(src, m, 0, len(src))
    return src, m, items
