#!/usr/bin/env python3
"""seed_confirm.py <seed-id> <property> <worktree>
Confirms a seeded change independently (in the given scratch worktree, never in /repo):
  1. with the patch: crate builds and the pinned test suite passes
  2. with the patch: the demonstration test FAILS
  3. without the patch: the demonstration test PASSES
then stores patch.diff, the demonstration and meta.json under /verif/seeded/<seed-id>/ and runs the
property's check (and C01) against /repo with the patch applied, undoing it straight afterwards."""
import sys, os, re, subprocess, json, shutil

VERIF = os.path.dirname(os.path.dirname(os.path.abspath(__file__)))

def sh(cmd, cwd=None, timeout=1800):
    p = subprocess.run(cmd, shell=True, cwd=cwd, stdout=subprocess.PIPE, stderr=subprocess.STDOUT, timeout=timeout)
    return p.returncode, p.stdout.decode('utf-8', 'replace')

def main():
    sid, prop, wt = sys.argv[1], sys.argv[2], sys.argv[3]
    extra_props = sys.argv[4:]
    patch = open(os.path.join(wt, 'patch.diff')).read()
    demo = open(os.path.join(wt, 'demo_test.rs')).read()
    mo = re.search(r'(src/[A-Za-z0-9_/]+\.rs)', demo)
    target = mo.group(1)
    tname = re.search(r'fn\s+([A-Za-z0-9_]+)\s*\(', demo[demo.index('#[test]'):]).group(1)
    meta = {'seed': sid, 'property': prop, 'demo_target': target, 'demo_test': tname, 'ran': []}
    # make sure worktree == HEAD + patch
    sh('git checkout -- src', cwd=wt)
    rc, out = sh('git apply patch.diff', cwd=wt)
    assert rc == 0, out
    rc, out = sh('cargo test --offline 2>&1 | grep -E "^test result|error(\\[|:)" | head -5', cwd=wt)
    meta['ran'].append({'cmd': 'cargo test --offline (with patch)', 'out': out.strip()})
    suite_ok = '93 passed; 0 failed' in out
    # paste demo before the final closing brace of the target file
    path = os.path.join(wt, target)
    src = open(path).read()
    k = src.rstrip().rfind('}')
    open(path, 'w').write(src[:k] + '\n' + demo + '\n' + src[k:])
    rc, out = sh('cargo test --offline %s 2>&1 | grep -E "^test |^test result|panicked|error(\\[|:)" | head -8' % tname, cwd=wt)
    meta['ran'].append({'cmd': 'cargo test --offline %s (with patch)' % tname, 'out': out.strip()})
    fails_with = 'FAILED' in out and '1 failed' in out
    rc, out2 = sh('git apply -R patch.diff', cwd=wt)
    assert rc == 0, out2
    rc, out = sh('cargo test --offline %s 2>&1 | grep -E "^test |^test result|panicked|error(\\[|:)" | head -8' % tname, cwd=wt)
    meta['ran'].append({'cmd': 'cargo test --offline %s (without patch)' % tname, 'out': out.strip()})
    passes_without = '1 passed; 0 failed' in out
    sh('git checkout -- src', cwd=wt)
    meta['confirmed'] = {'suite_passes_with_patch': suite_ok, 'demo_fails_with_patch': fails_with, 'demo_passes_without_patch': passes_without}
    print(json.dumps(meta['confirmed']))
    if not (suite_ok and fails_with and passes_without):
        print('NOT CONFIRMED'); print(json.dumps(meta, indent=1)); sys.exit(1)
    d = os.path.join(VERIF, 'seeded', sid)
    os.makedirs(d, exist_ok=True)
    open(os.path.join(d, 'patch.diff'), 'w').write(patch)
    open(os.path.join(d, 'demo_test.rs'), 'w').write(demo)
    # run the checks against /repo with the patch applied
    rc, out = sh('git -C /repo status --short | grep -v "^??" | head -3')
    assert out.strip() == '', '/repo is dirty: ' + out
    rc, out = sh('git -C /repo apply %s' % os.path.join(d, 'patch.diff'))
    assert rc == 0, out
    results = {}
    try:
        for p in [prop] + extra_props:
            rc, out = sh('./check %s --tier quick' % p, cwd=VERIF)
            lines = [l for l in out.split('\n') if l.startswith('VIOLATION') or l.startswith('UNDECIDED') or re.match(r'C\d+:', l)]
            results[p] = {'exit': rc, 'lines': [l[:400] for l in lines]}
            print(p, 'exit', rc)
            for l in lines: print('   ', l[:300])
    finally:
        sh('git -C /repo checkout -- .')
    meta['check_results'] = results
    meta['detected'] = any(r['exit'] == 1 for r in results.values())
    json.dump(meta, open(os.path.join(d, 'meta.json'), 'w'), indent=1)
    # refresh evidence on the clean tree afterwards is the caller's job

if __name__ == '__main__':
    main()
