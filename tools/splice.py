"""Builds one Verus file per unit from the real source text, the shims and the contracts.

The text of every extracted item is copied verbatim from /repo; the only changes are the rewrites
listed in DESIGN.md section 3.1 (each is recorded in the unit's report) and the insertion of
contract text taken from contracts/*.vspec.
"""
import os, re, json, hashlib
import rustscan, vspec
from rustscan import ScanError

VERIF = os.path.dirname(os.path.dirname(os.path.abspath(__file__)))

class LostAnchor(Exception):
    """An extraction / splice anchor is missing: the run is undecided (exit 2), never a violation."""
    pass

DEFAULT_DROP_USE = [
    r'^use\s+(log|lazy_static|chrono|flate2|siphasher|byteorder|itertools|strum|strum_macros|bitflags|rand|clap|pcap|pcap_file|stderrlog|dns_parser)\b',
    r'^extern\s+crate\b',
    r'^use\s+std::(io|fs|sync|time|fmt|str::FromStr)\b',
]

WORLD_PARAM = 'w: &mut World'

def decode_rust_bytes(body):
    out = bytearray(); i = 0
    while i < len(body):
        c = body[i]
        if c == '\\':
            n = body[i + 1]
            if n == 'x': out.append(int(body[i + 2:i + 4], 16)); i += 4
            elif n == 'n': out.append(10); i += 2
            elif n == 'r': out.append(13); i += 2
            elif n == 't': out.append(9); i += 2
            elif n == '0': out.append(0); i += 2
            elif n == '\\': out.append(92); i += 2
            elif n == '"': out.append(34); i += 2
            elif n == "'": out.append(39); i += 2
            elif n == '\n':
                i += 2
                while i < len(body) and body[i] in ' \t\n': i += 1
            else: raise LostAnchor('unknown escape \\%s in byte string' % n)
        else:
            out += c.encode('utf-8'); i += 1
    return bytes(out)

def bytestr_edits(src, m, a, b):
    """rule R20: byte-string literals b\"..\" between offsets a and b -> array literals &[..u8] (exact decoding);
    returns [(start, end, replacement)] with newline count preserved"""
    res = []
    for mo in re.finditer(r'(?<![A-Za-z0-9_])b"[^"]*"', m[a:b]):
        st, en = a + mo.start(), a + mo.end()
        body = src[st + 2:en - 1]
        data = decode_rust_bytes(body)
        rep = '(&[' + ', '.join('%du8' % x for x in data) + '])'
        rep += '\n' * src[st:en].count('\n')
        res.append((st, en, rep))
    return res

def strlit_edits(src, m, a, b, skip_spans):
    """rule R31 (functions marked @strbytes): the plain string literals of the body become byte slices with exactly the
    literal's UTF-8 bytes (decoded from the source text): `"x".to_string()` -> str_lit(bs(&[..])), a literal match
    pattern `"x" =>` -> a guard comparing bytes, any other literal -> bs(&[..]).  Literals inside macro invocations
    (log macros, panic!) and inside rewritten format! calls are left alone."""
    res = []
    # spans of macro invocations name!( .. ) / name![ .. ] / name!{ .. }
    mac = []
    for mo in re.finditer(r'[A-Za-z_][A-Za-z0-9_]*!\s*[\(\[\{]', m[a:b]):
        po = a + mo.end() - 1
        mac.append((a + mo.start(), rustscan.match_close(m, po)))
    for mo in re.finditer(r'(?<![A-Za-z0-9_])(b?)"[^"]*"', m[a:b]):
        st, en = a + mo.start(), a + mo.end()
        if mo.group(1):
            continue   # byte-string literal: rule R20
        if any(x <= st < y for x, y in mac) or any(x <= st < y for x, y in skip_spans):
            continue
        data = decode_rust_str(src[st + 1:en - 1])
        arr = 'crate::shim::bs(&[' + ', '.join('%du8' % x for x in data) + '])'
        tail = m[en:en + 40]
        # a match arm made of string-literal alternatives `"a" | "b" =>`: one guard with a disjunction
        grp = re.compile(r'(?:"[^"]*"\s*\|\s*)+"[^"]*"(?=\s*=>)').match(m, st)
        if grp:
            lits = [decode_rust_str(src[x.start() + 1:x.end() - 1]) for x in re.finditer(r'"[^"]*"', m[st:grp.end()])]
            # re.finditer above ran on the masked text slice: recompute offsets on the source
            lits = []
            for x in re.finditer(r'"[^"]*"', m[st:grp.end()]):
                lits.append(decode_rust_str(src[st + x.start() + 1:st + x.end() - 1]))
            rep = 'r31_m if ' + ' || '.join('crate::shim::str_is(r31_m, crate::shim::bs(&[' + ', '.join('%du8' % b_ for b_ in d_) + ']))' for d_ in lits)
            rep += '\n' * src[st:grp.end()].count('\n')
            res.append((st, grp.end(), rep))
            skip_spans = list(skip_spans) + [(st, grp.end())]
            continue
        mt = re.match(r'\.to_string\(\)', tail)
        if mt:
            rep = 'crate::shim::str_lit(' + arr + ')'; en2 = en + mt.end()
        elif re.match(r'\s*=>', tail):
            rep = 'r31_m if crate::shim::str_is(r31_m, ' + arr + ')'; en2 = en
        else:
            rep = arr; en2 = en
        rep += '\n' * src[st:en2].count('\n')
        res.append((st, en2, rep))
    return res

R33_NAMES = ('map_or', 'map', 'and_then', 'filter', 'or_else', 'unwrap_or_else', 'is_some_and')

def _r33_recv_start(m, dot):
    """start offset of the postfix expression that ends just before the `.` at offset dot (method-call receiver)"""
    k = dot - 1
    progressed = False
    while k >= 0:
        ch = m[k]
        if ch.isspace():
            # cross white space only inside a method chain: what follows the space (already accepted) starts with '.'
            j = k
            while j >= 0 and m[j].isspace(): j -= 1
            nxt = k + 1
            while nxt < dot and m[nxt].isspace(): nxt += 1
            if j >= 0 and (m[nxt] == '.' or nxt == dot) and (m[j].isalnum() or m[j] in '_)]?'):
                k = j; continue
            break
        if ch in ')]':
            depth = 0; j = k
            while j >= 0:
                if m[j] in ')]}': depth += 1
                elif m[j] in '([{':
                    depth -= 1
                    if depth == 0: break
                j -= 1
            if j < 0: return None
            k = j - 1; progressed = True; continue
        if ch.isalnum() or ch == '_':
            while k >= 0 and (m[k].isalnum() or m[k] == '_'): k -= 1
            progressed = True; continue
        if ch == '.' or ch == '?' or ch == '!':
            k -= 1; continue
        if ch == ':' and k >= 1 and m[k - 1] == ':':
            k -= 2; continue
        break
    if not progressed: return None
    st = k + 1
    while st < dot and m[st].isspace(): st += 1
    # a receiver that starts with a keyword is not a receiver
    if re.match(r'(return|if|else|match|let|in|as|mut|move|while|for)\b', m[st:dot]): return None
    return st

def _r33_split_args(src, m):
    args = []; depth = 0; cur = 0
    for j, ch in enumerate(m):
        if ch in '([{': depth += 1
        elif ch in ')]}': depth -= 1
        elif ch == ',' and depth == 0:
            args.append((cur, j)); cur = j + 1
        elif ch == '|' and depth == 0 and not args and False:
            pass
    if src[cur:].strip(): args.append((cur, len(src)))
    return args

def r33_desugar(text, counter):
    """rule R33: inline the std Option combinators that take a closure (definitions as in core::option), repeatedly,
    until none is left in `text`.  Returns (new_text, number_of_rewrites) or raises ValueError when a call site does
    not have the expected shape (the caller then leaves the text alone)."""
    n_done = 0
    guard = 0
    pos0 = 0
    while True:
        guard += 1
        if guard > 40: raise ValueError('too many combinators')
        mm = rustscan.mask(text)
        hit = None
        for mo in re.finditer(r'\.\s*(%s)\s*\(' % '|'.join(R33_NAMES), mm):
            if mo.start() < pos0: continue
            po = mo.end() - 1
            pc = rustscan.match_close(mm, po)
            inner_s, inner_m = text[po + 1:pc], mm[po + 1:pc]
            # split arguments at top-level commas; a closure's own `|a, b|` parameter list is protected below
            prot = list(inner_m)
            bar = [i for i, c in enumerate(inner_m) if c == '|']
            depth = 0; bars = []
            for i, c in enumerate(inner_m):
                if c in '([{': depth += 1
                elif c in ')]}': depth -= 1
                elif c == '|' and depth == 0: bars.append(i)
            if len(bars) >= 2 and inner_m[bars[0]:bars[1] + 1].count(',') > 0:
                for i in range(bars[0], bars[1] + 1):
                    if prot[i] == ',': prot[i] = ';'
            args = _r33_split_args(inner_s, ''.join(prot))
            if not args: continue
            la, lb = args[-1]
            cm = re.match(r'^\s*(?:move\s+)?\|([^|]*)\|\s*(.*?)\s*$', inner_s[la:lb], flags=re.S)
            cmm = re.match(r'^\s*(?:move\s+)?\|([^|]*)\|\s*(.*?)\s*$', inner_m[la:lb], flags=re.S)
            if not cm or not cmm: continue
            body_m = cmm.group(2)
            if re.search(r'\breturn\b|\?', body_m) or body_m.startswith('->'): continue
            hit = (mo, po, pc, args, cm, inner_s); break
        if hit is None:
            return text, n_done
        mo, po, pc, args, cm, inner_s = hit
        name = mo.group(1)
        dot = mo.start()
        st = _r33_recv_start(mm, dot)
        if st is None: raise ValueError('receiver of .%s not recognised' % name)
        recv = text[st:dot].strip()
        params = cm.group(1).strip(); body = cm.group(2).strip()
        if ':' in params: raise ValueError('typed closure parameter')
        other = [inner_s[a_:b_].strip() for a_, b_ in args[:-1]]
        counter[0] += 1; k = counter[0]
        v = 'r33_v%d' % k
        o = 'crate::shim::opt_id(%s)' % recv
        if name == 'map' and not other and params:
            rep = '(match %s { Some(%s) => Some(%s), None => None })' % (o, params, body)
        elif name == 'map_or' and len(other) == 1 and params:
            rep = '({ let r33_s%d = %s; let r33_d%d = %s; match r33_s%d { Some(%s) => %s, None => r33_d%d } })' % (k, o, k, other[0], k, params, body, k)
        elif name == 'and_then' and not other and params:
            rep = '(match %s { Some(%s) => %s, None => None })' % (o, params, body)
        elif name == 'filter' and not other and params:
            rep = '(match %s { Some(%s) => { let r33_k%d = { let %s = &%s; %s }; if r33_k%d { Some(%s) } else { None } }, None => None })' % (o, v, k, params, v, body, k, v)
        elif name == 'or_else' and not other and not params:
            rep = '(match %s { Some(%s) => Some(%s), None => %s })' % (o, v, v, body)
        elif name == 'unwrap_or_else' and not other and not params:
            rep = '(match %s { Some(%s) => %s, None => %s })' % (o, v, v, body)
        elif name == 'is_some_and' and not other and params:
            rep = '(match %s { Some(%s) => %s, None => false })' % (o, params, body)
        else:
            raise ValueError('.%s with an unexpected argument list' % name)
        text = text[:st] + rep + text[pc + 1:]
        n_done += 1
        pos0 = 0

def combinator_edits(src, m, a, b):
    """rule R33 on the body text src[a:b]: statements that contain an Option combinator with a closure argument are
    replaced as a whole (from the start of the outermost receiver to the end of the call chain).  Returns
    [(start, end, replacement, count)]."""
    res = []
    counter = [0]
    pos = a
    while True:
        mo = re.compile(r'\.\s*(%s)\s*\(' % '|'.join(R33_NAMES)).search(m, pos, b)
        if not mo: break
        po = mo.end() - 1
        pc = rustscan.match_close(m, po)
        # does the call have a closure argument?
        if not re.search(r'(^|[(,])\s*(move\s+)?\|', m[po:pc]):
            pos = mo.end(); continue
        st = _r33_recv_start(m, mo.start())
        if st is None:
            pos = mo.end(); continue
        # extend over the rest of the method chain
        en = pc + 1
        while True:
            mo2 = re.compile(r'\s*(\?)?\s*\.\s*[A-Za-z_][A-Za-z0-9_]*\s*(::<[^>]*>)?\s*\(').match(m, en)
            if mo2:
                en = rustscan.match_close(m, mo2.end() - 1) + 1; continue
            mo3 = re.compile(r'\s*\?').match(m, en)
            if mo3 and mo3.end() > en and m[mo3.end() - 1] == '?':
                en = mo3.end(); continue
            break
        seg = src[st:en]
        try:
            new, cnt = r33_desugar(seg, counter)
        except (ValueError, rustscan.ScanError):
            pos = en; continue
        if cnt:
            new = ' '.join(new.split()) if False else new
            missing = seg.count('\n') - new.count('\n')
            if missing < 0:
                new = ' '.join(new.split()); missing = seg.count('\n')
            res.append((st, en, new + '\n' * missing, cnt))
        pos = en
    return res

def closure_starts(m, a, b):
    """offsets of the opening `|` of every closure expression in m[a:b] (same recognition as rule R32)"""
    res = []
    i = a
    while True:
        k = m.find('|', i, b)
        if k < 0: break
        i = k + 1
        j0 = k - 1
        while j0 >= a and m[j0].isspace(): j0 -= 1
        prev = m[j0] if j0 >= a else '('
        mv = m[max(a, j0 - 3):j0 + 1] == 'move'
        if not (prev in '(,=' or mv):
            if m[k + 1:k + 2] == '|': i = k + 2
            continue
        if m[k + 1:k + 2] == '|':
            pend = k + 1
        else:
            pend = m.find('|', k + 1, b)
            if pend < 0: break
            if not re.match(r'^[A-Za-z0-9_&,():<>\s\[\]\'\*]*$', m[k + 1:pend]):
                continue
        res.append(k)
        i = pend + 1
    return res

def closure_edits(src, m, a, b, skip_spans):
    """rule R32: an expression closure `|params| EXPR` (body not a block) gets the postcondition "the result is EXPR":
    `|params| -> (r32: _) ensures equal(r32, EXPR) { EXPR }`.  Verus checks the postcondition against the body, so no
    assumption is added; a body outside spec mode (calls without specification, side effects) makes the unit undecided,
    as an unannotated closure passed to a std combinator already does.  Returns [(offset, text)] insertions."""
    res = []
    i = a
    while True:
        k = m.find('|', i, b)
        if k < 0: break
        i = k + 1
        # `||` : either logical or, or a closure without parameters
        j0 = k - 1
        while j0 >= a and m[j0].isspace(): j0 -= 1
        prev = m[j0] if j0 >= a else '('
        mv = m[max(a, j0 - 3):j0 + 1] == 'move'
        if not (prev in '(,=' or mv):
            if m[k + 1:k + 2] == '|': i = k + 2
            continue
        if m[k + 1:k + 2] == '|':
            pend = k + 1
        else:
            pend = m.find('|', k + 1, b)
            if pend < 0: break
            params = m[k + 1:pend]
            if not re.match(r'^[A-Za-z0-9_&,():<>\s\[\]\'\*]*$', params):
                continue
        q = pend + 1
        while q < b and m[q].isspace(): q += 1
        if q >= b or m[q] == '{' or m[q:q + 2] == '->':
            i = pend + 1
            continue
        # body: up to the first `,` or closing bracket at depth 0
        depth = 0; e = q
        while e < b:
            ch = m[e]
            if ch in '([{': depth += 1
            elif ch in ')]}':
                if depth == 0: break
                depth -= 1
            elif ch == ',' and depth == 0: break
            e += 1
        body_end = e
        while body_end > q and m[body_end - 1].isspace(): body_end -= 1
        if any(x <= k < y or x < body_end <= y for x, y in skip_spans):
            i = pend + 1
            continue
        expr = ' '.join(src[q:body_end].split())
        res.append((pend + 1, ' -> (r32: _) ensures equal(r32, ' + expr + ') {', k))
        res.append((body_end, ' }', None))
        i = body_end
    return res

def decode_rust_str(body):
    """decode the body of a normal Rust string literal to bytes (UTF-8)"""
    out = bytearray(); i = 0
    while i < len(body):
        c = body[i]
        if c == '\\':
            n = body[i + 1]
            if n == 'x': out.append(int(body[i + 2:i + 4], 16)); i += 4
            elif n == 'n': out.append(10); i += 2
            elif n == 'r': out.append(13); i += 2
            elif n == 't': out.append(9); i += 2
            elif n == '0': out.append(0); i += 2
            elif n == '\\': out.append(92); i += 2
            elif n == '"': out.append(34); i += 2
            elif n == "'": out.append(39); i += 2
            elif n == '\n':
                i += 2
                while i < len(body) and body[i] in ' \t\n\r': i += 1
            elif n == 'u':
                j = body.index('}', i)
                out += chr(int(body[i + 3:j], 16)).encode('utf-8'); i = j + 1
            else: raise LostAnchor('unknown escape \\%s in string literal' % n)
        else:
            out += c.encode('utf-8'); i += 1
    return bytes(out)

def format_edits(src, m, a, b, disp=''):
    """rule R8: format!(LIT, args..) with only `{}` placeholders -> crate::shim::fmt_catN(&PIECES.., &args..).
    Returns [(start, end, replacement, pieces)].  Anything else raises LostAnchor (exit 2)."""
    res = []
    for mo in re.finditer(r'(?<![A-Za-z0-9_])format!\s*\(', m[a:b]):
        st = a + mo.start()
        po = a + mo.end() - 1
        pc = rustscan.match_close(m, po)
        inner_m = m[po + 1:pc]
        # first argument: a string literal
        k = po + 1
        while m[k].isspace(): k += 1
        if m[k] != '"':
            raise LostAnchor('format! whose first argument is not a plain string literal (line %d)' % rustscan.line_of(src, st))
        e = m.index('"', k + 1)
        lit = decode_rust_str(src[k + 1:e])
        # arguments: split at top-level commas
        args = []
        depth = 0; cur = e + 1
        j = e + 1
        while j < pc:
            ch = m[j]
            if ch in '([{': depth += 1
            elif ch in ')]}': depth -= 1
            elif ch == ',' and depth == 0:
                if src[cur:j].strip(): args.append(src[cur:j].strip())
                cur = j + 1
            j += 1
        if src[cur:pc].strip().strip(','):
            args.append(src[cur:pc].strip().strip(','))
        args = [x for x in args if x]
        if re.search(rb'\{[^}]+\}', lit.replace(b'{{', b'').replace(b'}}', b'')):
            raise LostAnchor('format! with a placeholder other than {} (line %d)' % rustscan.line_of(src, st))
        pieces = lit.split(b'{}')
        if len(pieces) != len(args) + 1:
            raise LostAnchor('format! placeholder/argument count mismatch (line %d)' % rustscan.line_of(src, st))
        if len(args) > 4 or len(args) < 1:
            raise LostAnchor('format! with %d arguments is outside the accepted subset' % len(args))
        nm_ = re.sub(r'[^A-Za-z0-9]+', '_', disp)
        idx_ = len(res)
        pref_ = ['crate::fmtpieces::%s_%d_p%d()' % (nm_, idx_, k_) for k_ in range(len(pieces))]
        parts = [pref_[0]]
        for ai, ar in enumerate(args):
            parts.append('&(' + ar + ')'); parts.append(pref_[ai + 1])
        # statement-level `let x = format!(..)..;`: hoist the arguments into named lets (same evaluation order)
        pre = m[max(a, st - 200):st]
        mlet = re.search(r'\blet\s+(mut\s+)?([A-Za-z_][A-Za-z0-9_]*)\s*(:[^=;]+)?=\s*$', pre)
        if mlet:
            idx = len(res)
            names = ['fmt%d_a%d' % (idx, ai) for ai in range(len(args))]
            parts = [pref_[0]]
            for ai, ar in enumerate(args):
                parts.append('&' + names[ai]); parts.append(pref_[ai + 1])
            lets = ' '.join('let %s = %s;' % (names[ai], ar) for ai, ar in enumerate(args))
            st2 = st - (len(pre) - mlet.start())
            head = src[st2:st]
            rep = lets + ' ' + head + 'crate::shim::fmt_cat%d(%s)' % (len(args), ', '.join(parts))
            rep += '\n' * src[st2:pc + 1].count('\n')
            res.append((st2, pc + 1, rep, pieces))
            continue
        rep = 'crate::shim::fmt_cat%d(%s)' % (len(args), ', '.join(parts))
        rep += '\n' * src[st:pc + 1].count('\n')
        res.append((st, pc + 1, rep, pieces))
    return res

class Emitter:
    def __init__(self):
        self.chunks = []   # (text, origin) origin = (kind, file, line0) ; line0 = line of first char
    def emit(self, text, origin):
        if text:
            self.chunks.append((text, origin))
    def mark(self, tag):
        self.chunks.append(('', ('mark', tag, 0)))
    def render(self):
        """Returns (text, linemap) where linemap[i] (0-based output line) = origin dict or None."""
        out = []
        linemap = []
        cur_line_origin = None
        self.marks = []
        for text, origin in self.chunks:
            kind, f, l0 = origin
            if kind == 'mark':
                self.marks.append((f, len(linemap) + 1))
                continue
            ln = l0
            for ch in text:
                if ch == '\n':
                    linemap.append(cur_line_origin)
                    cur_line_origin = None
                    ln += 1
                else:
                    if cur_line_origin is None and not ch.isspace():
                        cur_line_origin = {'kind': kind, 'file': f, 'line': ln}
                out.append(ch)
        linemap.append(cur_line_origin)
        return ''.join(out), linemap

def module_path_of(repo_file):
    p = repo_file
    assert p.startswith('src/') and p.endswith('.rs')
    p = p[4:-3]
    parts = p.split('/')
    if parts == ['masscanned']:
        return []
    if parts[-1] == 'mod':
        parts = parts[:-1]
    return parts

def sha256(s):
    return hashlib.sha256(s.encode('utf-8')).hexdigest()

def load_cfg(verif, name):
    cfg = json.load(open(os.path.join(verif, 'units', name + '.json')))
    if 'extends' in cfg:
        base = load_cfg(verif, cfg['extends'])
        merged = dict(base)
        merged.pop('abstract', None)
        for k, v in cfg.items():
            if k == 'files':
                files = dict(base.get('files', {}))
                for f, fc in v.items():
                    if fc.get('reset'):
                        files[f] = {k_: v_ for k_, v_ in fc.items() if k_ != 'reset'}
                        continue
                    if f in files:
                        m = dict(files[f])
                        for kk, vv in fc.items():
                            if isinstance(vv, list) and isinstance(m.get(kk), list):
                                m[kk] = m[kk] + [x for x in vv if x not in m[kk]]
                            else:
                                m[kk] = vv
                        files[f] = m
                    else:
                        files[f] = fc
                merged['files'] = files
            elif k == 'world_callees':
                merged[k] = base.get(k, []) + v
            elif k != 'extends':
                merged[k] = v
        cfg = merged
    return cfg

class Unit:
    def __init__(self, name, repo='/repo', verif=VERIF, contracts=None):
        self.name = name
        self.repo = repo
        self.verif = verif
        self.cfg = load_cfg(verif, name)
        self.contracts = contracts if contracts is not None else vspec.load_all(os.path.join(verif, 'contracts'))
        self.report = {'unit': name, 'items': [], 'rewrites': [], 'functions_verified': [], 'functions_stubbed': [],
                       'trusted': [], 'clauses': []}
        self.fn_index = {}   # generated fn display name -> info

    # ------------------------------------------------------------------ helpers
    def _fn_key(self, item, parent):
        if parent is not None and parent.kind in ('impl', 'trait'):
            pn = parent.name[5:] if parent.kind == 'impl' else parent.name
            return pn + '::' + item.name
        return item.name

    def _apply_rewrites(self, text, rewrites, repo_file, base_line):
        """Regex rewrites that preserve the number of newlines of the replaced region."""
        for rule, count, rx, repl, origin in rewrites:
            n = [0]
            def sub(mo):
                n[0] += 1
                new = mo.expand(repl)
                missing = mo.group(0).count('\n') - new.count('\n')
                if missing < 0:
                    raise LostAnchor('rewrite %s adds lines' % rule)
                self.report['rewrites'].append({'rule': rule, 'file': repo_file,
                    'line': base_line + text.count('\n', 0, mo.start()), 'before': mo.group(0), 'after': new})
                return new + '\n' * missing
            text = re.sub(rx, sub, text, flags=re.S)
            if count is not None:
                count[0] += n[0]
        return text

    # ------------------------------------------------------------------ fn splicing
    def _splice_fn(self, em, item, parent, repo_file, fspec, mode, file_rewrites, world_callees):
        """mode: 'verify' | 'stub' | 'decl' (trait method without body)"""
        src, m = item.src, item.m
        key = self._fn_key(item, parent)
        c = fspec.fns.get(key) if fspec else None
        fp = rustscan.FnParts(item)
        line = lambda off: rustscan.line_of(src, off)
        R = lambda a, b: em.emit(src[a:b], ('repo', repo_file, line(a)))
        G = lambda t: em.emit(t, ('gen', None, 0))
        in_trait_impl = parent is not None and parent.kind == 'impl' and ' for ' in parent.name
        in_trait = parent is not None and parent.kind == 'trait'
        disp = '::'.join(module_path_of(repo_file) + [key])
        if c and c.opaque_body and mode == 'verify':
            mode = 'stub'
        em.mark(('fn_start', disp, mode))
        # attributes
        attrs = src[item.attr_start:item.start]
        attrs = re.sub(r'^\s*///.*$', '', attrs, flags=re.M)
        em.emit(attrs, ('repo', repo_file, line(item.attr_start)))
        if c:
            for a in c.attrs:
                G(a + '\n')
        if mode == 'stub':
            G('#[verifier::external_body]\n')
        # visibility widening (R12)
        head = src[item.start:fp.params_open]
        if not in_trait_impl and not in_trait and not re.match(r'pub\b', head):
            G('pub ')
            self.report['rewrites'].append({'rule': 'R12', 'file': repo_file, 'line': line(item.start), 'before': '', 'after': 'pub'})
        sig_txt = self._apply_rewrites(src[item.start:fp.params_close] + ')', [(r_, None, rx_, rp_, o_) for (r_, c_, rx_, rp_, o_) in file_rewrites], repo_file, line(item.start))
        em.emit(sig_txt[:-1], ('repo', repo_file, line(item.start)))
        if c and c.world:
            inner = m[fp.params_open + 1:fp.params_close]
            if inner.strip() == '':
                G(WORLD_PARAM)
            elif inner.rstrip().endswith(','):
                G(' ' + WORLD_PARAM)
            else:
                G(', ' + WORLD_PARAM)
            self.report['rewrites'].append({'rule': 'R4', 'file': repo_file, 'line': line(fp.params_close), 'before': ')', 'after': WORLD_PARAM + ')'})
        G(')')
        # return type
        has_spec = c is not None and c.spec is not None
        if fp.ret_start is not None:
            rt = src[fp.ret_start:fp.ret_end]
            if has_spec:
                G(' -> (%s: ' % c.ret)
                em.emit(rt.strip(), ('repo', repo_file, line(fp.ret_start)))
                G(')')
            else:
                R(fp.params_close + 1, fp.ret_end)
            if fp.where_start is not None:
                G(' ')
                R(fp.where_start, fp.sig_end)
        else:
            R(fp.params_close + 1, fp.sig_end)
        # contract
        canary = getattr(self, 'canary', False) and mode == 'verify'
        if canary:
            self.canaries = getattr(self, 'canaries', [])
            cname = 'c%d' % len(self.canaries)
            self.canaries.append((cname, disp))
            cline = '        crate::canary::%s(),\n' % cname
        if has_spec:
            G('\n')
            done = not canary
            keep = getattr(self, 'clause_filter', {}).get(disp)
            drop_lines = set()
            if keep is not None:
                for cl in c.spec.clauses():
                    if cl['section'] == 'ensures' and cl['first'] not in keep:
                        drop_lines.update(range(cl['first'], cl['last'] + 1))
            if mode != 'verify':
                # clauses marked `@verify-only` are obligations of the function's own unit that no caller relies on;
                # they may name items that only that unit extracts, so callers' units see the contract without them
                for cl in c.spec.clauses():
                    if '@verify-only' in cl['text'] or any('@verify-only' in t_ for t_, n_ in c.spec.lines if cl['first'] <= n_ <= cl['last']):
                        drop_lines.update(range(cl['first'], cl['last'] + 1))
            for t, no in c.spec.lines:
                if no in drop_lines:
                    em.emit('// (clause not emitted in this unit)\n', ('gen', None, 0))
                    continue
                code = re.sub(r'//.*$', '', t).strip()
                if not done and re.match(r'decreases\b', code):
                    em.emit('    ensures\n' + cline, ('canary', disp, 0)); done = True
                mo = re.match(r'(\s*)ensures\b(.*)$', t)
                if not done and mo:
                    em.emit(mo.group(1) + 'ensures\n', ('vspec', c.spec.file, no))
                    em.emit(cline, ('canary', disp, 0))
                    if re.sub(r'//.*$', '', mo.group(2)).strip():
                        em.emit(mo.group(1) + '    ' + mo.group(2).strip() + '\n', ('vspec', c.spec.file, no))
                    done = True
                    continue
                em.emit(t + '\n', ('vspec', c.spec.file, no))
            if not done:
                em.emit('    ensures\n' + cline, ('canary', disp, 0))
        elif canary:
            em.emit('\n    ensures\n' + cline, ('canary', disp, 0))
        if has_spec:
            for cl in c.spec.clauses():
                self.report['clauses'].append({'fn': disp, 'vspec': os.path.relpath(c.spec.file, self.verif), 'first': cl['first'], 'last': cl['last'],
                                               'text': cl['text'], 'tags': cl['tags'], 'section': cl['section'], 'mode': mode})
        fn_tags = set(c.tags) if c else set()
        if in_trait_impl:
            # a method of `impl Trait for T` also discharges the clauses declared on Trait::method
            mo_t = re.match(r'impl(?:<[^>]*>)?\s+([A-Za-z_][A-Za-z0-9_]*)', parent.name)
            if mo_t:
                for fs2 in self.contracts.values():
                    c2 = fs2.fns.get(mo_t.group(1) + '::' + item.name)
                    if c2: fn_tags |= set(c2.tags)
        info = {'fn': disp, 'file': repo_file, 'lines': list(item.lines()), 'sha256': sha256(item.full_text),
                'mode': mode, 'contract': bool(has_spec), 'tags': sorted(fn_tags)}
        if mode == 'decl':
            G(';') if not has_spec else G(';\n')
            em.emit('\n', ('gen', None, 0))
            em.mark(('fn_end', disp, mode))
            return info
        if mode == 'stub':
            if item.body_open is not None:
                for st_, en_, rep_, pieces_ in format_edits(src, m, item.body_open, item.end, disp):
                    self.fmt_pieces = getattr(self, 'fmt_pieces', {})
                    self.fmt_pieces.setdefault(disp, []).append(pieces_)
            G(' { unimplemented!() }\n')
            em.mark(('fn_end', disp, mode))
            self.report['functions_stubbed'].append(info)
            if c and c.opaque_body:
                self.report['trusted'].append({'fn': disp, 'reason': c.trusted_reason or 'body outside the accepted subset'})
            return info
        # body with edits
        bo, be = item.body_open, item.end - 1       # '{' and '}'
        edits = []   # (offset, del_len, [(text, origin)])
        # rule R34: standard mask/shift facts at the start of every verified body
        if mode == 'verify' and not getattr(self, 'no_bit_facts', False):
            edits.append((bo + 1, 0, [(' proof { crate::shim::bit_facts(); }', ('gen', None, 0))]))
        # prelude
        if c and c.prelude:
            edits.append((bo + 1, 0, [('\n', ('gen', None, 0))] + [(t + '\n', ('vspec', c.prelude.file, no)) for t, no in c.prelude.lines]))
        if c and c.epilogue:
            edits.append((be, 0, [('\n', ('gen', None, 0))] + [(t + '\n', ('vspec', c.epilogue.file, no)) for t, no in c.epilogue.lines]))
            # the proof hints of an @epilogue belong to every exit: an early `return ..;` statement gets a copy in front of it
            for mo_ in re.finditer(r'\breturn\b', m[bo + 1:be]):
                k_ = bo + 1 + mo_.start()
                ls_ = m.rfind('\n', 0, k_) + 1
                semi_ = m.find(';', k_)
                if m[ls_:k_].strip() != '' or semi_ < 0 or semi_ > be or '{' in m[k_:semi_]:
                    continue   # a `return` in expression position (match arm) cannot take a copy
                edits.append((k_, 0, [('{\n', ('gen', None, 0))] + [(t + '\n', ('vspec', c.epilogue.file, no)) for t, no in c.epilogue.lines]))
                edits.append((semi_ + 1, 0, [(' }', ('gen', None, 0))]))
        # loops
        loops = rustscan.find_loops(m, bo + 1, be)
        info['loops'] = len(loops)
        if mode == 'verify' and not getattr(self, 'no_bit_facts', False):
            for kw_, k_, q_ in loops:
                edits.append((q_ + 1, 0, [(' proof { crate::shim::bit_facts(); }', ('gen', None, 0))]))
        # loop contracts are keyed by loop ordinal: if the number of loops in the body differs from the number the
        # contracts were written against (contracts/loop_counts.json), an ordinal may now name a different loop and
        # its invariants would be checked against the wrong loop -- undecided, never a failed obligation
        if c and (c.loops or getattr(c, 'loopbodies', None) or getattr(c, 'loopends', None) or getattr(c, 'loppres', None) or getattr(c, 'loopafters', None)):
            lc = getattr(self, '_loop_counts', None)
            if lc is None:
                try: lc = json.load(open(os.path.join(self.verif, 'contracts', 'loop_counts.json')))
                except Exception: lc = {}
                self._loop_counts = lc
            info['loop_contract'] = True
            if disp in lc and lc[disp] != len(loops):
                raise LostAnchor('%s: the body has %d loops, its loop contracts were written for %d (loop structure changed)' % (disp, len(loops), lc[disp]))
        if c:
            for n, (blk, itname) in c.loops.items():
                if n < 1 or n > len(loops):
                    raise LostAnchor('%s: contract names loop %d but the body has %d loops' % (disp, n, len(loops)))
                kw, k, q = loops[n - 1]
                ins = [('\n', ('gen', None, 0))] + [(t + '\n', ('vspec', blk.file, no)) for t, no in blk.lines]
                edits.append((q, 0, ins))
                if itname:
                    if kw != 'for':
                        raise LostAnchor('%s: loop %d is not a for loop' % (disp, n))
                    mo = re.compile(r'\bin\s+').search(m, k, q)
                    if not mo: raise LostAnchor('%s: for loop %d without in' % (disp, n))
                    edits.append((mo.end(), 0, [(itname + ': ', ('gen', None, 0))]))
                for cl in blk.clauses():
                    self.report['clauses'].append({'fn': disp, 'vspec': os.path.relpath(blk.file, self.verif), 'first': cl['first'], 'last': cl['last'],
                                                   'text': cl['text'], 'tags': cl['tags'] or sorted(c.tags), 'section': cl['section'], 'loop': n, 'mode': mode})
            for n, blk in getattr(c, 'loopbodies', {}).items():
                if n < 1 or n > len(loops):
                    raise LostAnchor('%s: contract names loop %d but the body has %d loops' % (disp, n, len(loops)))
                kw, k, q = loops[n - 1]
                edits.append((q + 1, 0, [('\n', ('gen', None, 0))] + [(t + '\n', ('vspec', blk.file, no)) for t, no in blk.lines]))
            for n, blk in getattr(c, 'loppres', {}).items():
                if n < 1 or n > len(loops):
                    raise LostAnchor('%s: contract names loop %d but the body has %d loops' % (disp, n, len(loops)))
                kw, k, q = loops[n - 1]
                ls = src.rfind('\n', 0, k) + 1
                edits.append((ls, 0, [(t + '\n', ('vspec', blk.file, no)) for t, no in blk.lines]))
            for n, blk in getattr(c, 'loopends', {}).items():
                if n < 1 or n > len(loops):
                    raise LostAnchor('%s: contract names loop %d but the body has %d loops' % (disp, n, len(loops)))
                kw, k, q = loops[n - 1]
                qc = rustscan.match_close(m, q)
                edits.append((qc, 0, [('\n', ('gen', None, 0))] + [(t + '\n', ('vspec', blk.file, no)) for t, no in blk.lines]))
            for n, blk in getattr(c, 'loopafters', {}).items():
                if n < 1 or n > len(loops):
                    raise LostAnchor('%s: contract names loop %d but the body has %d loops' % (disp, n, len(loops)))
                kw, k, q = loops[n - 1]
                qc = rustscan.match_close(m, q)
                edits.append((qc + 1, 0, [('\n', ('gen', None, 0))] + [(t + '\n', ('vspec', blk.file, no)) for t, no in blk.lines]))
            for where, rx, blk in c.anchors:
                # statement line matching regex (unique) inside the body
                body = src[bo:be]
                hits = [mo for mo in re.finditer(rx, body, flags=re.M)]
                occ = getattr(blk, 'occurrence', None)
                if where.endswith('all'):
                    if len(hits) < 1:
                        raise LostAnchor('%s: proof anchor /%s/ matched %d times' % (disp, rx, len(hits)))
                elif occ == -1:
                    # @before[last]: the last matching line (the function's tail, whether written `x` or `return x;`)
                    if len(hits) < 1:
                        raise LostAnchor('%s: proof anchor /%s/ matched 0 times' % (disp, rx))
                    hits = [hits[-1]]
                elif occ is not None:
                    if len(hits) < occ:
                        raise LostAnchor('%s: proof anchor /%s/ matched %d times, occurrence %d wanted' % (disp, rx, len(hits), occ))
                    hits = [hits[occ - 1]]
                elif len(hits) != 1:
                    raise LostAnchor('%s: proof anchor /%s/ matched %d times' % (disp, rx, len(hits)))
                for mo in hits:
                    if where.startswith('before'):
                        off = bo + body.rfind('\n', 0, mo.start()) + 1
                    else:
                        e = body.find('\n', mo.end())
                        off = bo + e + 1
                    ins = [(t + '\n', ('vspec', blk.file, no)) for t, no in blk.lines]
                    edits.append((off, 0, ins))
                    # second attempt of a failing unit (runner.run_unit): a hint placed before the tail expression of the
                    # body is a hint for the function's exit; early `return ..;` statements get a copy
                    if getattr(self, 'copy_tail_hints', False) and where == 'before' and len(hits) == 1 and m[bo + mo.end():be].strip() == '':
                        for mo_ in re.finditer(r'\breturn\b', m[bo + 1:bo + mo.start()]):
                            k_ = bo + 1 + mo_.start()
                            ls_ = m.rfind('\n', 0, k_) + 1
                            semi_ = m.find(';', k_)
                            if m[ls_:k_].strip() != '' or semi_ < 0 or semi_ > be or '{' in m[k_:semi_]:
                                continue
                            edits.append((k_, 0, [('{\n', ('gen', None, 0))] + ins))
                            edits.append((semi_ + 1, 0, [(' }', ('gen', None, 0))]))
                            self.tail_hint_copies = getattr(self, 'tail_hint_copies', 0) + 1
                    self.report['rewrites'].append({'rule': 'proof-anchor', 'file': repo_file, 'line': line(off), 'before': '', 'after': blk.text()})
        # world call sites (R4)
        if c and c.world and world_callees:
            for mo in re.finditer(r'\(', m[bo:be]):
                po = bo + mo.start()
                pre = m[max(bo, po - 120):po]
                mm = re.search(r'([A-Za-z_][A-Za-z0-9_:.]*)\s*$', pre)
                if not mm: continue
                callee = mm.group(1)
                if not any(re.search(rx + r'$', callee) for rx in world_callees):
                    continue
                pc = rustscan.match_close(m, po)
                inner = m[po + 1:pc]
                if inner.strip() == '':
                    t = 'w'
                elif inner.rstrip().endswith(','):
                    t = ' w'
                else:
                    t = ', w'
                edits.append((pc, 0, [(t, ('gen', None, 0))]))
                self.report['rewrites'].append({'rule': 'R4', 'file': repo_file, 'line': line(po), 'before': callee + '(..)', 'after': callee + '(.., w)'})
        # regex rewrites inside the body: computed on the original text, turned into replacement edits
        body_src = src[bo:item.end]
        for rule, count, rx, repl, origin in file_rewrites:
            for mo in re.finditer(rx, body_src, flags=re.S):
                newt = mo.expand(repl)
                missing = mo.group(0).count('\n') - newt.count('\n')
                if missing < 0:
                    raise LostAnchor('rewrite %s adds lines' % rule)
                a0 = bo + mo.start()
                edits.append((a0, mo.end() - mo.start(), [(newt + '\n' * missing, ('repo', repo_file, line(a0)))]))
                self.report['rewrites'].append({'rule': rule, 'file': repo_file, 'line': line(a0), 'before': mo.group(0), 'after': newt})
        # rule R35 (every file): `.extend(x)` -> `.extend_v(x)` (shim::ExtendShim) wherever no file rule rewrites the call
        taken = [(a_, a_ + l_) for (a_, l_, _) in edits if l_ > 0]
        for mo in re.finditer(r'\.extend\(', m[bo:item.end]):
            a0 = bo + mo.start(); a1 = bo + mo.end()
            if any(a0 < e1 and s1 < a1 for (s1, e1) in taken):
                continue
            edits.append((a0, a1 - a0, [('.extend_v(', ('repo', repo_file, line(a0)))]))
            self.report['rewrites'].append({'rule': 'R35', 'file': repo_file, 'line': line(a0), 'before': '.extend(', 'after': '.extend_v('})
        # rule R22: after `let x = "literal";` reveal the literal's length/ASCII facts (text copied from the source)
        for mo in re.finditer(r'\blet\s+(?:mut\s+)?[A-Za-z_][A-Za-z0-9_]*\s*=\s*"', m[bo:item.end]):
            q0 = bo + mo.end() - 1
            q1 = m.index('"', q0 + 1)
            k2 = q1 + 1
            while m[k2].isspace(): k2 += 1
            if m[k2] != ';':
                continue
            lit_src = src[q0:q1 + 1]
            ins = ' proof { reveal_strlit(' + lit_src.replace('\n', '\n') + '); }'
            # keep line structure: the literal may span lines; the inserted copy adds lines, which is fine for insertions
            edits.append((k2 + 1, 0, [(ins, ('gen', None, 0))]))
            self.report['rewrites'].append({'rule': 'R22', 'file': repo_file, 'line': line(q0), 'before': '', 'after': 'reveal_strlit(<same literal>)'})
        fmt_spans = []
        for st_, en_, rep_, pieces_ in format_edits(src, m, bo, item.end, disp):
            edits.append((st_, en_ - st_, [(rep_, ('repo', repo_file, line(st_)))]))
            fmt_spans.append((st_, en_))
            self.report['rewrites'].append({'rule': 'R8', 'file': repo_file, 'line': line(st_), 'before': src[st_:en_][:60], 'after': rep_[:80]})
            self.fmt_pieces = getattr(self, 'fmt_pieces', {})
            self.fmt_pieces.setdefault(disp, []).append(pieces_)
        if c and getattr(c, 'strbytes', False):
            for st_, en_, rep_ in strlit_edits(src, m, bo, item.end, fmt_spans):
                edits.append((st_, en_ - st_, [(rep_, ('repo', repo_file, line(st_)))]))
                self.report['rewrites'].append({'rule': 'R31', 'file': repo_file, 'line': line(st_), 'before': src[st_:en_][:40], 'after': rep_[:80]})
        for st_, en_, rep_ in bytestr_edits(src, m, bo, item.end):
            if any(a_ <= st_ < b_ for a_, b_ in fmt_spans): continue
            edits.append((st_, en_ - st_, [(rep_, ('repo', repo_file, line(st_)))]))
            self.report['rewrites'].append({'rule': 'R20', 'file': repo_file, 'line': line(st_), 'before': src[st_:en_][:40], 'after': rep_[:40]})
        if mode == 'verify':
            # rule R33 (inline Option combinators with closure arguments); edits of other rules that lie entirely inside
            # the rewritten expression are applied to its text first
            for st_, en_, _rep0, _cnt0 in combinator_edits(src, m, bo, item.end):
                inner = [e_ for e_ in edits if e_[1] > 0 and st_ <= e_[0] and e_[0] + e_[1] <= en_]
                clash = [e_ for e_ in edits if e_ not in inner and ((e_[1] > 0 and e_[0] < en_ and st_ < e_[0] + e_[1]) or (e_[1] == 0 and st_ < e_[0] < en_))]
                if clash:
                    continue
                seg = src[st_:en_]
                for e_ in sorted(inner, key=lambda e: -e[0]):
                    seg = seg[:e_[0] - st_] + ''.join(t_ for t_, _ in e_[2]) + seg[e_[0] - st_ + e_[1]:]
                try:
                    rep_, cnt_ = r33_desugar(seg, [0])
                except (ValueError, rustscan.ScanError):
                    continue
                if not cnt_:
                    continue
                missing = src[st_:en_].count('\n') - rep_.count('\n')
                if missing < 0:
                    rep_ = ' '.join(rep_.split()); missing = src[st_:en_].count('\n')
                for e_ in inner: edits.remove(e_)
                edits.append((st_, en_ - st_, [(rep_ + '\n' * missing, ('repo', repo_file, line(st_)))]))
                self.report['rewrites'].append({'rule': 'R33', 'file': repo_file, 'line': line(st_), 'before': src[st_:en_][:100], 'after': rep_[:160]})
            rew_spans = [(o_, o_ + d_) for (o_, d_, _) in edits if d_ > 0]
            annotated = set()
            for off_, txt_, k_ in closure_edits(src, m, bo, item.end, rew_spans):
                edits.append((off_, 0, [(txt_, ('gen', None, 0))]))
                if k_ is not None: annotated.add(k_)
                self.report['rewrites'].append({'rule': 'R32', 'file': repo_file, 'line': line(off_), 'before': '', 'after': txt_[:100]})
            # a closure that is left without a postcondition would make the callee's specification say nothing about
            # the result: undecided, never a failed obligation
            for k_ in closure_starts(m, bo, item.end):
                if k_ in annotated or any(x <= k_ < y for x, y in rew_spans):
                    continue
                raise LostAnchor('%s: closure at line %d is outside the accepted subset (block body or not rewritable): its postcondition is unknown' % (disp, line(k_)))
        edits.sort(key=lambda e: (e[0], e[1]))
        # an insertion strictly inside a replaced region cannot be honoured
        for i, (off, dl, ins) in enumerate(edits):
            if dl > 0:
                for off2, dl2, _ in edits:
                    if off < off2 < off + dl:
                        # move the inner insertion to the end of the replaced region
                        raise LostAnchor('%s: a contract insertion falls inside rewritten text at line %d' % (disp, line(off2)))
        pos = bo
        for off, dl, ins in edits:
            if off < pos:
                raise LostAnchor('%s: overlapping edits at line %d' % (disp, line(off)))
            em.emit(src[pos:off], ('repo', repo_file, line(pos)))
            for t, o in ins:
                em.emit(t, o)
            pos = off + dl
        em.emit(src[pos:item.end], ('repo', repo_file, line(pos)))
        G('\n')
        em.mark(('fn_end', disp, mode))
        self.report['functions_verified'].append(info)
        return info

    # ------------------------------------------------------------------ other items
    def _emit_plain(self, em, item, repo_file, fspec, file_rewrites):
        src = item.src
        line = lambda off: rustscan.line_of(src, off)
        attrs_txt = src[item.attr_start:item.start]
        text = src[item.start:item.end]
        for st_, en_, rep_ in reversed(bytestr_edits(src, item.m, item.start, item.end)):
            text = text[:st_ - item.start] + rep_ + text[en_ - item.start:]
            self.report['rewrites'].append({'rule': 'R20', 'file': repo_file, 'line': line(st_), 'before': src[st_:en_][:40], 'after': rep_[:40]})
        tspec = fspec.types.get(item.name) if (fspec and item.kind in ('struct', 'enum')) else None
        # doc comments are comments: keep. Derives: drop the ones Verus cannot take.
        def fix_derive(mo):
            names = [x.strip() for x in mo.group(1).split(',') if x.strip()]
            drop = {'EnumString', 'Display', 'EnumIter', 'AsRefStr', 'Hash', 'Debug'}
            if tspec: drop |= set(tspec.drop_derive)
            keep = [x for x in names if x not in drop]
            dropped = [x for x in names if x in drop]
            if dropped:
                self.report['rewrites'].append({'rule': 'R14', 'file': repo_file, 'line': line(item.attr_start), 'before': mo.group(0), 'after': 'derive(' + ', '.join(keep) + ')'})
            return '#[derive(' + ', '.join(keep) + ')]' if keep else ''
        attrs_txt = re.sub(r'#\[derive\(([^)]*)\)\]', fix_derive, attrs_txt)
        attrs_txt = re.sub(r'#\[strum[^\]]*\]', '', attrs_txt)
        if item.kind in ('struct', 'enum', 'const', 'static', 'type', 'trait'):
            # R12 visibility widening
            if not re.match(r'pub\b', text):
                text = 'pub ' + text
            if item.kind == 'struct' and item.body_open is not None:
                # fields
                bo = text.index('{')
                body = text[bo:]
                body = re.sub(r'(?m)^(\s*)(?!pub\b)(?!//)(?!/\*)(?!\*)([a-z_][A-Za-z0-9_]*\s*:)', r'\1pub \2', body)
                if tspec and tspec.fields:
                    k = body.rindex('}')
                    body = body[:k] + ''.join('    ' + f + ',\n' for f in tspec.fields) + body[k:]
                    self.report['rewrites'].append({'rule': 'R13', 'file': repo_file, 'line': line(item.start), 'before': '', 'after': '; '.join(tspec.fields)})
                text = text[:bo] + body
        text = attrs_txt + text
        if item.kind == 'const':
            # R15
            new = re.sub(r':\s*&\[', ": &'static [", text, count=1)
            new = re.sub(r':\s*&str\b', ": &'static str", new, count=1)
            new = re.sub(r':\s*\[&str;', ": [&'static str;", new, count=1)
            if new != text:
                self.report['rewrites'].append({'rule': 'R15', 'file': repo_file, 'line': line(item.start), 'before': '&', 'after': "&'static"})
                text = new
        if item.kind == 'const':
            # R29: a byte-slice constant initialised by a byte string is a dual-mode const Verus cannot build
            # (array -> slice coercion in spec mode): emit `NAME_SPEC()` (the same bytes as a Seq) and an
            # `exec const` whose postcondition ties the run-time value to it.
            mo29 = re.match(r"(?s)\s*pub\s+const\s+([A-Z0-9_]+)\s*:\s*&'static \[u8\]\s*=\s*\(&\[([0-9u, ]*)\]\)\s*;(\s*)$", text[len(attrs_txt):])
            if mo29:
                nm, elems = mo29.group(1), mo29.group(2)
                n_el = len([x for x in elems.split(',') if x.strip()])
                nl = text.count('\n')
                text = (attrs_txt + "#[verifier::opaque] pub open spec fn %s_SPEC() -> Seq<u8> { seq![%s] } " % (nm, elems) +
                        "pub proof fn %s_SPEC_len() ensures %s_SPEC().len() == %d { reveal(%s_SPEC); } " % (nm, nm, n_el, nm) +
                        "pub exec const %s: &'static [u8] ensures %s@ == %s_SPEC(), %s@.len() == %d { proof { reveal(%s_SPEC); } let a: &'static [u8; %d] = &[%s]; assert(a@ =~= %s_SPEC()); a }" % (nm, nm, nm, nm, n_el, nm, n_el, elems, nm) + '\n' * nl)
                self.report['rewrites'].append({'rule': 'R29', 'file': repo_file, 'line': line(item.start), 'before': 'const %s: &[u8] = b".."' % nm, 'after': 'spec fn %s_SPEC + exec const %s ensures %s@ == %s_SPEC()' % (nm, nm, nm, nm)})
        text = self._apply_rewrites(text, file_rewrites, repo_file, line(item.attr_start))
        if tspec:
            for a in tspec.attrs:
                em.emit(a + '\n', ('gen', None, 0))
        em.emit(text, ('repo', repo_file, line(item.attr_start)))
        em.emit('\n', ('gen', None, 0))
        self.report['items'].append({'file': repo_file, 'kind': item.kind, 'name': item.name, 'lines': list(item.lines()), 'sha256': sha256(item.full_text)})

    def _emit_file(self, em, repo_file, fcfg):
        path = os.path.join(self.repo, repo_file)
        if not os.path.exists(path):
            raise LostAnchor('source file %s is missing' % repo_file)
        try:
            src, m, items = rustscan.parse_file(path)
        except ScanError as e:
            raise LostAnchor('cannot scan %s: %s' % (repo_file, e))
        fspec = self.contracts.get(repo_file)
        verify = set(fcfg.get('verify', []))
        stub = set(fcfg.get('stub', []))
        sel = fcfg.get('items')      # None => all plain items
        drop_use = list(DEFAULT_DROP_USE) + ([] if fcfg.get('drop_use_reset') else fcfg.get('drop_use', [])) + (fspec.drop_use if fspec else [])
        counts = []
        file_rewrites = []
        for rule, count, rx, repl, no in (fspec.rewrites if fspec else []):
            cnt = [0]
            counts.append((rule, count, cnt, rx))
            file_rewrites.append((rule, cnt, rx, repl, no))
        world_callees = self.cfg.get('world_callees', [])
        if fcfg.get('prelude'):
            em.emit(fcfg['prelude'] + '\n', ('gen', None, 0))
        found = set()
        try: known_consts = json.load(open(os.path.join(self.verif, 'contracts', 'known_consts.json')))
        except Exception: known_consts = None
        if known_consts is None:
            raise LostAnchor('contracts/known_consts.json is missing')
        def want_plain(it):
            if it.kind in ('mod', 'macro'):
                return False
            if it.kind == 'use':
                if fcfg.get('uses') is False:
                    return False
                t = ' '.join(it.text.split())
                t = re.sub(r'^pub(\([^)]*\))?\s+', '', t)
                return not any(re.search(rx, t) for rx in drop_use)
            if ('%s %s' % (it.kind, it.name)) in fcfg.get('drop_items', []) or it.name in fcfg.get('drop_items', []):
                return False
            if sel is None:
                return True
            if it.kind in ('const', 'static') and it.name not in known_consts.get(repo_file, []):
                # a constant the pinned tree does not have (added by a change): extract it, so that code using it is
                # decided instead of ending "cannot find value"
                self.report['rewrites'].append({'rule': 'R36', 'file': repo_file, 'line': rustscan.line_of(src, it.start), 'before': '', 'after': 'new constant %s extracted' % it.name})
                return True
            return ('%s %s' % (it.kind, it.name)) in sel or it.name in sel
        for it in items:
            if it.is_test:
                continue
            if it.kind == 'fn':
                key = it.name
                if key in verify: mode = 'verify'
                elif key in stub: mode = 'stub'
                elif '**' in verify:
                    # "**" = every function of the file, but only functions a contract names: a function the contracts
                    # do not know (added by a change) has no postcondition, so verifying its callers against it would
                    # turn a harmless "extract helper" edit into a failed obligation; that is undecided, not a violation
                    if not (fspec and key in fspec.fns):
                        raise LostAnchor('%s: function `%s` has no contract (new or renamed function)' % (repo_file, key))
                    mode = 'verify'
                elif '**' in stub: mode = 'stub'
                else: continue
                found.add(key)
                self._splice_fn(em, it, None, repo_file, fspec, mode, file_rewrites, world_callees)
            elif it.kind in ('impl', 'trait'):
                pn = it.name[5:] if it.kind == 'impl' else it.name
                chosen = []
                for ch in it.children:
                    if ch.kind == 'fn':
                        key = pn + '::' + ch.name
                        if key in verify or (pn + '::*') in verify: chosen.append((ch, 'verify')); found.add(key); found.add(pn + '::*')
                        elif key in stub or (pn + '::*') in stub: chosen.append((ch, 'stub')); found.add(key); found.add(pn + '::*')
                        elif '**' in verify:
                            is_trait_impl = it.kind == 'impl' and ' for ' in it.name
                            known = bool(fspec and key in fspec.fns)
                            if not known and is_trait_impl:
                                mo_t = re.match(r'impl(?:<[^>]*>)?\s+([A-Za-z_][A-Za-z0-9_]*)', it.name)
                                known = bool(mo_t) and any((mo_t.group(1) + '::' + ch.name) in fs2.fns for fs2 in self.contracts.values())
                            if not known:
                                raise LostAnchor('%s: function `%s` has no contract (new or renamed function)' % (repo_file, key))
                            chosen.append((ch, 'verify'))
                        elif '**' in stub: chosen.append((ch, 'stub'))
                    elif ch.kind in ('type', 'const'):
                        chosen.append((ch, 'plain'))
                if not any(md != 'plain' for _, md in chosen):
                    if it.kind == 'trait' and sel is not None and ('trait ' + it.name) in sel:
                        pass
                    else:
                        continue
                line = lambda off: rustscan.line_of(src, off)
                hdr = src[it.attr_start:it.body_open + 1]
                if it.kind == 'trait' and not re.match(r'pub\b', src[it.start:it.start+4]):
                    hdr = src[it.attr_start:it.start] + 'pub ' + src[it.start:it.body_open + 1]
                hdr = self._apply_rewrites(hdr, [(r_, None, rx_, rp_, o_) for (r_, c_, rx_, rp_, o_) in file_rewrites], repo_file, line(it.attr_start))
                em.emit(hdr, ('repo', repo_file, line(it.attr_start)))
                em.emit('\n', ('gen', None, 0))
                tkey = ('trait ' + it.name) if it.kind == 'trait' else it.name
                if fspec and tkey in fspec.types:
                    for f in fspec.types[tkey].fields:
                        em.emit('    ' + f + '\n', ('gen', None, 0))
                        self.report['rewrites'].append({'rule': 'R16', 'file': repo_file, 'line': line(it.start), 'before': '', 'after': f})
                for ch, md in chosen:
                    if md == 'plain':
                        em.emit(src[ch.attr_start:ch.end] + '\n', ('repo', repo_file, line(ch.attr_start)))
                    else:
                        if ch.body_open is None:
                            md = 'decl'
                        self._splice_fn(em, ch, it, repo_file, fspec, md, file_rewrites, world_callees)
                em.emit('}\n', ('repo', repo_file, line(it.end - 1)))
            else:
                if want_plain(it):
                    self._emit_plain(em, it, repo_file, fspec, file_rewrites)
        missing = (verify | stub) - found - {'**'}
        if missing:
            raise LostAnchor('%s: functions not found: %s' % (repo_file, sorted(missing)))
        if sel is not None:
            names = set()
            for it in items:
                names.add('%s %s' % (it.kind, it.name)); names.add(it.name)
            for s in sel:
                if s not in names:
                    raise LostAnchor('%s: item not found: %s' % (repo_file, s))
        nontest = '\n'.join(it.full_text for it in items if not it.is_test)
        for rule, count, cnt, rx in counts:
            n = len(re.findall(rx, nontest, flags=re.S))
            if count != 0 and n != count:
                raise LostAnchor('%s: rewrite %s /%s/ expected %d matches in the file, found %d' % (repo_file, rule, rx, count, n))
        # raw blocks
        if fspec and not fcfg.get('no_raw'):
            for blk in fspec.raw:
                only = blk.arg.strip()
                if only and self.name not in only.split() and ('!' + self.name) not in only.split():
                    # `@raw u_a u_b` restricts the block to those units
                    if not all(x.startswith('!') for x in only.split()):
                        continue
                if ('!' + self.name) in only.split():
                    continue
                for t, no in blk.lines:
                    t = re.sub(r'/\*PROVED_IN:(\w+)\*/ ', lambda mo_: '' if mo_.group(1) == self.name else '#[verifier::external_body] ', t)
                    em.emit(t + '\n', ('vspec', blk.file, no))

    # ------------------------------------------------------------------ whole unit
    def build(self):
        em = Emitter()
        G = lambda t: em.emit(t, ('gen', None, 0))
        G('#![allow(unused_imports, dead_code, unused_variables, unused_mut, unused_assignments, non_snake_case, non_upper_case_globals, non_camel_case_types, unused_macros, unused_parens, unreachable_code, unused_braces, unreachable_patterns)]\n')
        G('use vstd::prelude::*;\n')
        G('verus! {\nglobal size_of usize == 8;\n')
        for sh in self.cfg.get('shims', []):
            p = os.path.join(self.verif, sh)
            txt = open(p).read()
            def proved_in(mo):
                return '' if mo.group(1) == self.name else '#[verifier::external_body] '
            txt = re.sub(r'/\*PROVED_IN:(\w+)\*/ ', proved_in, txt)
            em.emit('// ---- shim %s\n' % sh, ('gen', None, 0))
            em.emit(txt + '\n', ('shim', sh, 1))
        # module tree
        tree = {}
        for repo_file in self.cfg['files']:
            node = tree
            for seg in module_path_of(repo_file):
                node = node.setdefault('mods', {}).setdefault(seg, {})
            node.setdefault('files', []).append(repo_file)
        mod_prelude = self.cfg.get('module_prelude',
            '#[allow(unused_imports)] use vstd::prelude::*;\n#[allow(unused_imports)] use crate::{pnet, log};\n#[allow(unused_imports)] use crate::shim::*;\n#[allow(unused_imports)] use crate::{World, Ev, Layer, Verb};\n#[allow(unused_imports)] use crate::pnet::cksum::*;\n#[allow(unused_imports)] use crate::pnet::pspec::*;\n#[allow(unused_imports)] use crate::pnet_lemmas::*;\n#[allow(unused_imports)] use crate::pnet::util::{mac_bytes, mac_at};\n#[allow(unused_imports)] use crate::client::*;\n#[allow(unused_imports)] use crate::evspec::*;\n#[allow(unused_imports)] use crate::appspec::*;\n#[allow(unused_imports)] use crate::cfgspec::*;\n#[allow(unused_imports)] use crate::tcpspec::*;\n#[allow(unused_imports)] use crate::tcbspec::*;\nbroadcast use {crate::evspec::group_events, crate::shim::group_ip_axioms, crate::shim::group_be_subrange, crate::shim::axiom_ipaddr_key_model, crate::pnet::util::axiom_macaddr_key_model, vstd::std_specs::hash::group_hash_axioms, crate::pnet_lemmas::group_pnet_fields, crate::pnet::cksum::axiom_pseudo6_swap, crate::shim::lemma_le8_len};\n')
        def emit_node(node, depth, path=()):
            for f in node.get('files', []):
                em.emit('// ---- extracted from %s\n' % f, ('gen', None, 0))
                self._emit_file(em, f, self.cfg['files'][f])
            for name, sub in node.get('mods', {}).items():
                G('pub mod %s {\n' % name)
                me = 'use crate::' + '::'.join(path + (name,)) + '::*;'
                G(''.join(l + '\n' for l in mod_prelude.split('\n') if l and me not in l))
                emit_node(sub, depth + 1, path + (name,))
                G('} // mod %s\n' % name)
        if tree.get('files'):
            G(''.join(l + '\n' for l in mod_prelude.split('\n') if l and 'use vstd::prelude' not in l and 'use crate::{' not in l))
        emit_node(tree, 0)
        if getattr(self, 'fmt_pieces', None):
            G('/// rule R8: the literal pieces of every rewritten format! template, decoded from the source text\n')
            G('pub mod fmtpieces {\n    use vstd::prelude::*;\n')
            for disp_, lst in self.fmt_pieces.items():
                nm = re.sub(r'[^A-Za-z0-9]+', '_', disp_)
                for n_, pcs in enumerate(lst):
                    for k_, pc_ in enumerate(pcs):
                        G('    pub open spec fn %s_%d_P%d() -> Seq<u8> { seq![%s] }\n' % (nm, n_, k_, ', '.join('%du8' % x for x in pc_)) if pc_ else
                          '    pub open spec fn %s_%d_P%d() -> Seq<u8> { Seq::<u8>::empty() }\n' % (nm, n_, k_))
                        G('    pub fn %s_%d_p%d() -> (r: &\'static [u8]) ensures r@ == %s_%d_P%d() { let a: &\'static [u8; %d] = &[%s]; assert(a@ =~= %s_%d_P%d()); a }\n' % (
                            nm, n_, k_, nm, n_, k_, len(pc_), ', '.join('%du8' % x for x in pc_), nm, n_, k_))
            G('}\n')
        if getattr(self, 'canary', False):
            G('pub mod canary {\n    use vstd::prelude::*;\n')
            for cname, disp in getattr(self, 'canaries', []):
                G('    pub uninterp spec fn %s() -> bool; // %s\n' % (cname, disp))
            G('}\n')
            self.report['canaries'] = [d for _, d in getattr(self, 'canaries', [])]
        G('\n} // verus!\nfn main() {}\n')
        text, linemap = em.render()
        spans = []
        stack = []
        for tag, ln in em.marks:
            if tag[0] == 'fn_start': stack.append((tag[1], tag[2], ln))
            else:
                d, md, l0 = stack.pop()
                spans.append({'fn': d, 'mode': md, 'start': l0, 'end': ln})
        self.report['fn_spans'] = spans
        self.report['sha256_generated'] = sha256(text)
        return text, linemap

def build_unit(name, outdir, repo='/repo', contracts=None):
    u = Unit(name, repo=repo, contracts=contracts)
    text, linemap = u.build()
    os.makedirs(outdir, exist_ok=True)
    path = os.path.join(outdir, name + '.rs')
    open(path, 'w').write(text)
    json.dump(linemap, open(os.path.join(outdir, name + '.linemap.json'), 'w'))
    json.dump(u.report, open(os.path.join(outdir, name + '.report.json'), 'w'), indent=1)
    return path, linemap, u.report

if __name__ == '__main__':
    import sys
    name = sys.argv[1]
    out = sys.argv[2] if len(sys.argv) > 2 else os.path.join(VERIF, 'build')
    try:
        p, lm, rep = build_unit(name, out)
        print(p)
    except LostAnchor as e:
        print('LOST-ANCHOR:', e); sys.exit(2)
