"""Parser for contracts/*.vspec.

A .vspec file holds the contracts for ONE repository source file.  Grammar (line oriented; a
directive starts in column 0 with '@'):

    @file src/layer_4/icmpv4.rs
    @fn <key>                      key = fn name, or '<impl header>::<fn>' for methods
      @world                       rule R4: thread `w: &mut World`
      @ret <name>                  name of the return value in ensures (default r)
      @attr <text>                 extra attribute line put before the fn
      @spec                        requires/ensures/decreases clauses (Verus syntax), verbatim
        ...
      @prelude                     proof text inserted right after the body's opening brace
        ...
      @loop <n> [iter=<name>]      n-th loop of the body in source order: invariant/decreases
        ...
      @before <regex> / @after <regex>   proof text placed before/after the (unique) statement line
        ...                               matching regex inside this fn (proof-anchor rewrite)
    @type <name>                   struct/enum: `@attr` lines, `@fields` extra (ghost) fields
    @raw                           Verus items appended at the end of the module
      ...
    @rewrite <rule> <count> /<regex>/ => /<replacement>/     file-level text rewrite

Clause tagging: a clause line may end with `// C05 C12`; the tags name the properties the clause
serves.  Lines of a @spec/@loop block that carry no tag inherit the tags of the block header
(`@spec C05 C20`).
"""
import re, os

class Block:
    def __init__(self, kind, arg, file, line):
        self.kind = kind; self.arg = arg; self.file = file; self.line = line
        self.lines = []   # (text, lineno)
    def text(self):
        return '\n'.join(t for t, _ in self.lines)
    def clauses(self):
        """Group the lines of a spec/loop block into clauses.  A clause ends at a line whose code part
        ends with ','; keywords (requires/ensures/invariant/decreases) stand alone.  Returns a list of
        dicts {first, last, text, tags, section}."""
        res = []
        cur = None
        section = None
        hdr_tags = re.findall(r'C\d{2,3}', self.arg or '')
        for t, no in self.lines:
            code = re.sub(r'//.*$', '', t).strip()
            if not code:
                if cur is not None:
                    mo = TAG_RE.search(t)
                    if mo: cur['tags'] = mo.group(1).split()
                continue
            if code in ('requires', 'ensures', 'invariant', 'decreases', 'invariant_except_break', 'recommends'):
                section = code
                continue
            mo0 = re.match(r'(requires|ensures|invariant|decreases)\b\s*(.*)$', code)
            if mo0 and cur is None:
                section = mo0.group(1); code = mo0.group(2)
                if not code: continue
            if cur is None:
                cur = {'first': no, 'last': no, 'text': code, 'tags': None, 'section': section}
            else:
                cur['last'] = no; cur['text'] += ' ' + code
            mo = TAG_RE.search(t)
            if mo: cur['tags'] = mo.group(1).split()
            depth = 0
            for ch in cur['text']:
                if ch in '([{': depth += 1
                elif ch in ')]}': depth -= 1
            if code.endswith(',') and depth <= 0:
                if cur['tags'] is None: cur['tags'] = list(hdr_tags)
                res.append(cur); cur = None
        if cur is not None:
            if cur['tags'] is None: cur['tags'] = list(hdr_tags)
            res.append(cur)
        return res
    def clause_at(self, lineno):
        for c in self.clauses():
            if c['first'] <= lineno <= c['last']:
                return c
        return None

class FnContract:
    def __init__(self, key, file, line):
        self.key = key; self.file = file; self.line = line
        self.world = False
        self.ret = 'r'
        self.attrs = []
        self.spec = None
        self.prelude = None
        self.epilogue = None
        self.loops = {}      # n -> (Block, iter_name)
        self.loopbodies = {} # n -> Block inserted at the start of the loop body
        self.loopends = {}   # n -> Block inserted before the closing brace of the loop body
        self.loppres = {}    # n -> Block inserted before the loop statement
        self.loopafters = {} # n -> Block inserted right after the closing brace of loop n
        self.anchors = []    # (where, regex, Block)
        self.tags = set()
        self.opaque_body = False  # never verify the body, even when the unit asks (needs reason)
        self.strbytes = False     # rule R31: string literals of this fn become byte slices
        self.trusted_reason = None

class TypeSpec:
    def __init__(self, name):
        self.name = name; self.attrs = []; self.fields = []; self.drop_derive = []

class FileSpec:
    def __init__(self, path):
        self.path = path
        self.repo_file = None
        self.fns = {}
        self.types = {}
        self.raw = []        # Blocks
        self.rewrites = []   # (rule, count, regex, repl, line)
        self.drop_use = []   # regexes

TAG_RE = re.compile(r'//\s*((?:C\d{2,3}\b\s*)+)\s*(?:@verify-only)?\s*$')

def parse(path):
    fs = FileSpec(path)
    cur_fn = None; cur_type = None; cur_block = None
    with open(path, encoding='utf-8') as f:
        lines = f.read().split('\n')
    for no, raw in enumerate(lines, 1):
        if raw.startswith('@'):
            parts = raw.split(None, 1)
            d = parts[0]; arg = parts[1].strip() if len(parts) > 1 else ''
            cur_block = None
            if d == '@file':
                fs.repo_file = arg
            elif d == '@fn':
                cur_fn = FnContract(arg, path, no); cur_type = None
                if arg in fs.fns: raise ValueError('%s:%d duplicate @fn %s' % (path, no, arg))
                fs.fns[arg] = cur_fn
            elif d == '@type':
                cur_type = TypeSpec(arg); cur_fn = None
                fs.types[arg] = cur_type
            elif d == '@world':
                cur_fn.world = True
            elif d == '@strbytes':
                cur_fn.strbytes = True
            elif d == '@ret':
                cur_fn.ret = arg
            elif d == '@trusted':
                cur_fn.opaque_body = True; cur_fn.trusted_reason = arg
            elif d == '@attr':
                (cur_fn or cur_type).attrs.append(arg)
            elif d == '@field':
                cur_type.fields.append(arg)
            elif d == '@fields':
                cur_block = Block('fields', arg, path, no)
                cur_type.fields_block = cur_block
            elif d == '@dropderive':
                cur_type.drop_derive += arg.split()
            elif d == '@spec':
                cur_block = Block('spec', arg, path, no); cur_fn.spec = cur_block
            elif d == '@epilogue':
                cur_block = Block('epilogue', arg, path, no); cur_fn.epilogue = cur_block
            elif d == '@prelude':
                cur_block = Block('prelude', arg, path, no); cur_fn.prelude = cur_block
            elif d == '@loop':
                a = arg.split()
                n = int(a[0]); it = None; tags = []
                for x in a[1:]:
                    if x.startswith('iter='): it = x[5:]
                    else: tags.append(x)
                cur_block = Block('loop', ' '.join(tags), path, no)
                cur_fn.loops[n] = (cur_block, it)
            elif d == '@looppre':
                # text inserted on its own line just before loop n
                n = int(arg.split()[0])
                cur_block = Block('looppre', '', path, no)
                cur_fn.loppres[n] = cur_block
            elif d == '@loopafter':
                n = int(arg.split()[0])
                cur_block = Block('loopafter', '', path, no)
                cur_fn.loopafters[n] = cur_block
            elif d == '@loopend':
                # text inserted just before the closing brace of the body of loop n
                n = int(arg.split()[0])
                cur_block = Block('loopend', '', path, no)
                cur_fn.loopends[n] = cur_block
            elif d == '@loopbody':
                # text inserted at the very start of the body of loop n (robust against edits of the first statement)
                n = int(arg.split()[0])
                cur_block = Block('loopbody', '', path, no)
                cur_fn.loopbodies[n] = cur_block
            elif re.match(r'@(before|after)(all|\[(?:\d+|last)\])?$', d):
                # @before[k] / @after[k]: the k-th line matching the regex (instead of "the unique line")
                mo_ = re.match(r'@(before|after)(all|\[(\d+|last)\])?$', d)
                cur_block = Block('anchor', arg, path, no)
                where_ = mo_.group(1) + ('all' if mo_.group(2) == 'all' else '')
                cur_block.occurrence = (-1 if mo_.group(3) == 'last' else int(mo_.group(3))) if mo_.group(3) else None
                cur_fn.anchors.append((where_, arg, cur_block))
            elif d == '@raw':
                cur_block = Block('raw', arg, path, no); fs.raw.append(cur_block)
                cur_fn = None; cur_type = None
            elif d == '@rewrite':
                mo = re.match(r'(\S+)\s+(\d+)\s+/(.*)/\s*=>\s*/(.*)/\s*$', arg)
                if not mo: raise ValueError('%s:%d bad @rewrite' % (path, no))
                fs.rewrites.append((mo.group(1), int(mo.group(2)), mo.group(3), mo.group(4), no))
            elif d == '@dropuse':
                fs.drop_use.append(arg)
            elif d == '@end':
                cur_block = None
            else:
                raise ValueError('%s:%d unknown directive %s' % (path, no, d))
            continue
        if cur_block is not None:
            cur_block.lines.append((raw, no))
        elif raw.strip() and not raw.lstrip().startswith('#'):
            raise ValueError('%s:%d text outside a block: %r' % (path, no, raw))
    for t in fs.types.values():
        fb = getattr(t, 'fields_block', None)
        if fb is not None:
            t.fields.append(fb.text())
    # tags
    for fn in fs.fns.values():
        for b in [fn.spec, fn.prelude] + [x[0] for x in fn.loops.values()]:
            if b is None: continue
            for t in re.findall(r'C\d{2,3}', b.arg or ''):
                fn.tags.add(t)
            for text, _ in b.lines:
                mo = TAG_RE.search(text)
                if mo:
                    fn.tags.update(mo.group(1).split())
    return fs

def clause_tags(block, lineno):
    """Tags of the clause at vspec line `lineno`: its own trailing tag comment, else the tags of the
    closest following tagged line inside the same clause (clauses may span lines and carry the tag on
    the last line), else the block header tags."""
    idx = None
    for i, (t, no) in enumerate(block.lines):
        if no == lineno: idx = i; break
    if idx is not None:
        for t, no in block.lines[idx:]:
            mo = TAG_RE.search(t)
            if mo: return mo.group(1).split()
            if t.rstrip().endswith(',') and no != lineno:
                break
            if t.rstrip().endswith(','):
                break
    return re.findall(r'C\d{2,3}', block.arg or '')

def load_all(cdir):
    res = {}
    for fn in sorted(os.listdir(cdir)):
        if fn.endswith('.vspec'):
            fs = parse(os.path.join(cdir, fn))
            if not fs.repo_file:
                raise ValueError('%s: missing @file' % fn)
            res[fs.repo_file] = fs
    return res
