#!/usr/bin/env python3
"""witness.py -- bounded search for a failing input, used ONLY to attach a concrete witness to a violation that the
deductive check has already reported (Verus gives no counterexample).  It never creates a violation and is never
counted as evidence that a property holds.

A small reference model of layers 2-4, written from the statements of C02-C09 and C12 (not from the code), says for a
frame (and a short history) whether a reply is expected and which of its fields the statements pin down.  Candidate
frames / histories are enumerated per property and run on the hook binary (`masscanned` built with
--cfg masscanned_verif); the first disagreement is returned as {frames_hex, cfg, expected, got}.

The model is checked against the unchanged tree by `selfcheck()` (thorough tier): it must find no disagreement there.
"""
import os, sys, json, struct, socket, time
sys.path.insert(0, os.path.dirname(os.path.abspath(__file__)))
import replay as R

ME4, PEER4, ME6, PEER6 = '10.0.0.1', '10.0.0.2', '2001:db8::1', '2001:db8::2'
FIN, SYN, RST, PSH, ACK, URG, ECE, CWR, NS = 1, 2, 4, 8, 16, 32, 64, 128, 256
HTTP_REQ = b'GET / HTTP/1.0\r\n\r\n'

# ----------------------------------------------------------------------------- decoding
def csum_ok(words):
    if len(words) % 2: words += b'\0'
    s = sum(struct.unpack('!%dH' % (len(words) // 2), words))
    while s >> 16: s = (s & 0xffff) + (s >> 16)
    return s == 0xffff

def decode(fr):
    """decode a frame into a dict (None if not decodable); includes well-formedness facts (C04)"""
    if fr is None or len(fr) < 14: return None
    d = {'eth_dst': fr[0:6], 'eth_src': fr[6:12], 'ethertype': struct.unpack('!H', fr[12:14])[0], 'wf': []}
    p = fr[14:]
    if d['ethertype'] == 0x0806 and len(p) >= 28:
        d['l3'] = 'arp'
        (d['htype'], d['ptype'], d['hlen'], d['plen'], d['op']) = struct.unpack('!HHBBH', p[:8])
        d['sha'], d['spa'], d['tha'], d['tpa'] = p[8:14], p[14:18], p[18:24], p[24:28]
        return d
    if d['ethertype'] == 0x0800 and len(p) >= 20:
        d['l3'] = 'ip4'
        ihl = (p[0] & 15) * 4
        d['ip_src'], d['ip_dst'], d['proto'] = p[12:16], p[16:20], p[9]
        tot = struct.unpack('!H', p[2:4])[0]
        if p[0] >> 4 != 4: d['wf'].append('IPv4 version != 4')
        if ihl != 20: d['wf'].append('IHL != 5 words for an option-less reply')
        if tot != len(p): d['wf'].append('IPv4 total length %d != actual %d' % (tot, len(p)))
        if struct.unpack('!H', p[6:8])[0] & 0x3fff: d['wf'].append('fragmented reply')
        if p[8] < 1: d['wf'].append('TTL 0')
        if not csum_ok(p[:ihl]): d['wf'].append('IPv4 header checksum invalid')
        l4 = p[ihl:tot] if ihl <= tot <= len(p) else p[ihl:]   # trailing bytes behind the datagram are link-layer padding
        pseudo = p[12:20] + struct.pack('!BBH', 0, d['proto'], len(l4))
    elif d['ethertype'] == 0x86dd and len(p) >= 40:
        d['l3'] = 'ip6'
        d['ip_src'], d['ip_dst'], d['proto'] = p[8:24], p[24:40], p[6]
        d['hlim'] = p[7]
        plen = struct.unpack('!H', p[4:6])[0]
        if p[0] >> 4 != 6: d['wf'].append('IPv6 version != 6')
        if plen != len(p) - 40: d['wf'].append('IPv6 payload length %d != actual %d' % (plen, len(p) - 40))
        if p[7] < 1: d['wf'].append('hop limit 0')
        l4 = p[40:40 + plen] if plen <= len(p) - 40 else p[40:]
        pseudo = p[8:40] + struct.pack('!IHBB', len(l4), 0, 0, d['proto'])
    else:
        return d
    pr = d['proto']
    if pr == 6 and len(l4) >= 20:
        d['l4'] = 'tcp'
        (d['sport'], d['dport'], d['seq'], d['ack'], offf, d['win']) = struct.unpack('!HHIIHH', l4[:16])
        d['flags'] = offf & 0x1ff; doff = (offf >> 12) * 4
        d['payload'] = l4[doff:]
        if doff != 20: d['wf'].append('TCP data offset != 5 words for an option-less reply')
        if not csum_ok(pseudo + l4): d['wf'].append('TCP checksum invalid')
    elif pr == 17 and len(l4) >= 8:
        d['l4'] = 'udp'
        (d['sport'], d['dport'], ulen, ck) = struct.unpack('!HHHH', l4[:8])
        d['payload'] = l4[8:]
        if ulen != len(l4): d['wf'].append('UDP length %d != actual %d' % (ulen, len(l4)))
        if d['l3'] == 'ip6' and ck == 0: d['wf'].append('UDP checksum 0 over IPv6')
        if ck != 0 and not csum_ok(pseudo + l4): d['wf'].append('UDP checksum invalid')
    elif pr == 1 and d['l3'] == 'ip4' and len(l4) >= 4:
        d['l4'] = 'icmp4'; d['type'], d['code'] = l4[0], l4[1]; d['rest'] = l4[4:]
        if not csum_ok(l4): d['wf'].append('ICMP checksum invalid')
    elif pr == 58 and d['l3'] == 'ip6' and len(l4) >= 4:
        d['l4'] = 'icmp6'; d['type'], d['code'] = l4[0], l4[1]; d['rest'] = l4[4:]
        if not csum_ok(pseudo + l4): d['wf'].append('ICMPv6 checksum invalid')
    return d

# ----------------------------------------------------------------------------- reference model
class Model:
    """what the statements say, for frames addressed to the configured MAC with the given self/deny sets"""
    def __init__(self, cookie_of, self_set=None, deny_set=None):
        self.cookie_of = cookie_of; self.S = self_set; self.D = deny_set
        self.valid = set()   # flows that presented a valid cookie
        self.app_seen = set()   # flows whose application request was answered
    def handled(self, ip):
        return self.S is None or ip in self.S
    def expect(self, fr):
        """returns None (silence) or a dict of pinned fields of the reply"""
        q = decode(fr)
        if q is None: return None
        # C02: configured MAC, broadcast, IPv6 all-nodes, or the solicited-node multicast MAC of a handled IPv6 address
        ed = q['eth_dst']
        mac_ok = ed == R.mac(R.MAC) or ed == b'\xff' * 6 or ed == b'\x33\x33\x00\x00\x00\x01'
        if not mac_ok and ed[:3] == b'\x33\x33\xff' and self.S is not None:
            mac_ok = any(':' in ip and socket.inet_pton(socket.AF_INET6, ip)[13:] == ed[3:] for ip in self.S)
        if not mac_ok: return None
        if q.get('l3') == 'arp':
            if not (q['htype'] == 1 and q['ptype'] == 0x0800 and q['hlen'] == 6 and q['plen'] == 4 and q['op'] == 1): return None
            if not self.handled(socket.inet_ntoa(q['tpa'])): return None
            return {'l3': 'arp', 'op': 2, 'sha': R.mac(R.MAC), 'spa': q['tpa'], 'tha': q['sha'], 'tpa': q['spa']}
        if q.get('l3') not in ('ip4', 'ip6') or 'l4' not in q: return None
        if q['eth_dst'][:2] == b'\x33\x33' and q.get('l4') != 'icmp6': return None
        fam = socket.AF_INET if q['l3'] == 'ip4' else socket.AF_INET6
        src, dst = socket.inet_ntop(fam, q['ip_src']), socket.inet_ntop(fam, q['ip_dst'])
        if self.D is not None and src in self.D: return None
        e = {'l3': q['l3'], 'ip_src': q['ip_dst'], 'ip_dst': q['ip_src']}
        if q['l4'] in ('icmp4', 'icmp6'):
            if q['l4'] == 'icmp4' and q['type'] == 8 and q['code'] == 0 and self.handled(dst):
                e.update({'l4': 'icmp4', 'type': 0, 'code': 0, 'rest': q['rest']}); return e
            if q['l4'] == 'icmp6' and q['type'] == 128 and q['code'] == 0 and self.handled(dst) and not q['ip_dst'][0] == 0xff:
                e.update({'l4': 'icmp6', 'type': 129, 'code': 0, 'rest': q['rest']}); return e
            if q['l4'] == 'icmp6' and q['type'] == 135 and q['code'] == 0 and len(q['rest']) >= 20:
                tgt = q['rest'][4:20]
                if not self.handled(socket.inet_ntop(socket.AF_INET6, tgt)): return None
                e.update({'l4': 'icmp6', 'type': 136, 'code': 0, 'ip_src': tgt, 'hlim': 255,
                          'rest_prefix': b'\x60\x00\x00\x00' + tgt + b'\x02\x01' + R.mac(R.MAC)}); return e
            return None
        if not self.handled(dst): return None
        if q['l4'] == 'udp':
            return {'maybe': True, 'l3': q['l3'], 'l4': 'udp', 'ip_src': q['ip_dst'], 'ip_dst': q['ip_src'], 'sport': q['dport'], 'dport': q['sport']}
        if q['l4'] == 'tcp':
            fl = q['flags']; flow = (src, q['sport'], dst, q['dport'])
            e.update({'l4': 'tcp', 'sport': q['dport'], 'dport': q['sport']})
            if fl & SYN:
                rest = fl & ~SYN
                if rest & ~(PSH | URG | CWR | ECE) or (rest & CWR and rest & ECE): return None
                e.update({'flags': SYN | ACK, 'ack': (q['seq'] + 1) & 0xffffffff, 'seq': self.cookie_of(src, dst, q['sport'], q['dport']), 'payload': b'', 'win_nonzero': True}); return e
            if fl == (PSH | ACK):
                ck = self.cookie_of(src, dst, q['sport'], q['dport'])
                if flow not in self.valid and q['ack'] != ((ck + 1) & 0xffffffff): return None
                self.valid.add(flow)
                app = q['payload'].startswith(b'GET / HTTP/1.0')
                e.update({'seq': q['ack'], 'ack': (q['seq'] + len(q['payload'])) & 0xffffffff})
                if flow in self.app_seen:
                    # what the application layer does with later segments of a flow is the application properties' business
                    e['flags_in'] = (ACK, PSH | ACK)
                elif app:
                    e['flags'] = PSH | ACK; e['payload_prefix'] = b'HTTP/1.1 401'; self.app_seen.add(flow)
                else:
                    e['flags'] = ACK; e['payload'] = b''
                return e
            if fl == (FIN | ACK) and not q['payload']:
                e.update({'flags': FIN | ACK, 'ack': (q['seq'] + 1) & 0xffffffff}); return e
            return None
        return None

def compare(q_fr, exp, got_fr):
    """list of disagreements between the expectation and the reply actually produced"""
    if exp is None:
        return ['a reply was produced where the statements ask for silence'] if got_fr is not None else []
    if got_fr is None:
        return [] if exp.get('maybe') else ['no reply where the statements ask for one (%s)' % {k: (v.hex() if isinstance(v, bytes) else v) for k, v in exp.items()}]
    g = decode(got_fr); q = decode(q_fr); bad = []
    if g is None: return ['reply is not decodable']
    bad += g['wf']
    if g['eth_src'] != R.mac(R.MAC): bad.append('Ethernet source is not the configured MAC')
    if g['eth_dst'] != q['eth_src']: bad.append('Ethernet destination is not the request source MAC')
    if g['ethertype'] != q['ethertype']: bad.append('EtherType differs from the request')
    for k, v in exp.items():
        if k in ('maybe',): continue
        if k == 'flags_in':
            if g.get('flags') not in v: bad.append('flags: expected one of %s, got %s' % (v, g.get('flags')))
            continue
        if k == 'win_nonzero':
            if not g.get('win'): bad.append('zero window on a SYN-ACK')
        elif k == 'payload_prefix':
            if not g.get('payload', b'').startswith(v): bad.append('reply payload does not start with %r' % v)
        elif k == 'rest_prefix':
            if not g.get('rest', b'').startswith(v): bad.append('ICMPv6 body %s does not start with %s' % (g.get('rest', b'').hex(), v.hex()))
        elif g.get(k) != v:
            bad.append('%s: expected %s, got %s' % (k, v.hex() if isinstance(v, bytes) else v, g.get(k).hex() if isinstance(g.get(k), bytes) else g.get(k)))
    return bad

# ----------------------------------------------------------------------------- candidates
def e4(l4, proto, src=PEER4, dst=ME4, **kw): return R.eth(R.MAC, R.PEER, 0x0800, R.ip4(src, dst, proto, l4, **kw))
def e6(l4, nh, src=PEER6, dst=ME6, **kw): return R.eth(R.MAC, R.PEER, 0x86dd, R.ip6(src, dst, nh, l4, **kw))
def tcp4(flags, seq=1000, ack=0, payload=b'', sport=40000, dport=80, opts=b''):
    doff = 5 + len(opts) // 4
    seg = R.tcp(sport, dport, seq, ack, flags, b'', doff=doff) + opts + payload
    return e4(seg, 6)
def icmp6(t, c, rest, src=PEER6, dst=ME6):
    body = struct.pack('!BBH', t, c, 0) + rest
    pseudo = socket.inet_pton(socket.AF_INET6, src) + socket.inet_pton(socket.AF_INET6, dst) + struct.pack('!IHBB', len(body), 0, 0, 58)
    ck = R.csum(pseudo + body)
    return e6(body[:2] + struct.pack('!H', ck) + body[4:], 58, src=src, dst=dst)

def scenarios(pid, cookie_of):
    """yield (cfg, [frames]) ; the last frame of each list is the one whose reply is compared (earlier ones too)"""
    base = {}
    ck = lambda sport=40000, dport=80: cookie_of(PEER4, ME4, sport, dport)
    if pid in ('C05', 'C12', 'C03', 'C04', 'C20'):
        for op in (0, 1, 2, 3, 4, 8, 9):
            yield base, [R.eth('ff:ff:ff:ff:ff:ff', R.PEER, 0x0806, R.arp(op, R.PEER, PEER4, '00:00:00:00:00:00', ME4))]
        for t in (0, 3, 8, 13, 17):
            for c in (0, 1, 255):
                for n in (0, 1, 7, 56, 1467, 1468, 1469, 1470, 1471, 1472):
                    yield base, [e4(R.icmp(t, c, struct.pack('!HH', 0x1234, 7) + bytes((i * 7 + 1) & 0xff for i in range(n))), 1)]
        for t in (128, 129, 133, 134, 135, 136, 137):
            for c in (0, 1, 255):
                yield base, [icmp6(t, c, struct.pack('!HH', 0x4321, 9) + b'ping-data')]
        for n in range(0, 29, 4):
            for c in (0, 1):
                yield base, [icmp6(135, c, (b'\0\0\0\0' + socket.inet_pton(socket.AF_INET6, ME6) + b'\x01\x01' + R.mac(R.PEER))[:n])]
    if pid in ('C05', 'C06', 'C19', 'C13', 'C14', 'C15', 'C16', 'C17', 'C18', 'C07'):
        # the "is answered" direction through the lower layers: unicast ARP, padded minimum-size frames, odd TTLs / TOS,
        # duplicate-address-detection probes, every port pair class
        pad = b'\0' * 6
        yield base, [R.eth(R.MAC, R.PEER, 0x0806, R.arp(1, R.PEER, PEER4, '00:00:00:00:00:00', ME4))]
        yield base, [R.eth(R.MAC, R.PEER, 0x0806, R.arp(1, R.PEER, PEER4, '00:00:00:00:00:00', ME4)) + b'\0' * 18]
        yield base, [e4(R.icmp(8, 0, struct.pack('!HH', 1, 2) + b'x'), 1) + pad]
        yield base, [tcp4(SYN, seq=0xffffffff) + pad]
        yield base, [tcp4(SYN, seq=7, sport=1, dport=1)]
        yield base, [tcp4(SYN, seq=7, sport=65535, dport=65535)]
        yield base, [tcp4(SYN, seq=7, sport=0, dport=0)]
        yield base, [e6(R.tcp(40000, 80, 7, 0, SYN), 6)]
        yield base, [e6(R.tcp(40000, 80, 7, 0, SYN), 6) + pad]
        yield base, [icmp6(128, 0, struct.pack('!HH', 1, 2) + b'y') + pad]
        for ttl in (1, 2, 255):
            yield base, [e4(R.icmp(8, 0, struct.pack('!HH', 1, 2) + b'x'), 1, ttl=ttl)]
            yield base, [e4(R.tcp(40000, 80, 7, 0, SYN), 6, ttl=ttl)]
        yield {'self': ME6}, [R.eth('33:33:ff' + ''.join(':%02x' % b for b in socket.inet_pton(socket.AF_INET6, ME6)[13:]), R.PEER, 0x86dd, b'')
                              + icmp6(135, 0, b'\0\0\0\0' + socket.inet_pton(socket.AF_INET6, ME6), src='::', dst='ff02::1:ff' + '%02x:%02x%02x' % tuple(socket.inet_pton(socket.AF_INET6, ME6)[13:]))[14:]]
    if pid in ('C06', 'C12', 'C03', 'C04', 'C19'):
        for fl in range(512):
            if not fl & SYN and pid == 'C06': continue
            for seq in (0, 1234567, 0xffffffff):
                for pl in (b'', b'0123456789abcdefgh'):
                    if not fl & SYN and (seq != 0 or pl): continue
                    yield base, [tcp4(fl, seq=seq, payload=pl, dport=(80 if fl % 3 else 4444))]
    if pid in ('C07', 'C09', 'C12', 'C08', 'C03', 'C04', 'C01'):
        good = lambda **kw: tcp4(PSH | ACK, seq=5000, ack=(ck() + 1) & 0xffffffff, payload=HTTP_REQ, **kw)
        bad = lambda a, **kw: tcp4(PSH | ACK, seq=5000, ack=a, payload=HTTP_REQ, **kw)
        opts = b'\x01\x01\x08\x0a' + b'\0' * 8
        singles = [good(), bad(0), bad(1), bad(ck()), bad((ck() + 2) & 0xffffffff), bad(0xffffffff),
                   tcp4(ACK, seq=5000, ack=(ck() + 1) & 0xffffffff), tcp4(ACK, seq=5000, ack=(ck() + 1) & 0xffffffff, opts=opts),
                   tcp4(ACK, seq=5000, ack=(ck() + 1) & 0xffffffff, payload=HTTP_REQ),
                   tcp4(SYN | ACK, seq=5000, ack=(ck() + 1) & 0xffffffff, payload=HTTP_REQ), tcp4(RST | ACK, seq=5000, ack=(ck() + 1) & 0xffffffff, payload=HTTP_REQ),
                   tcp4(RST, seq=5000), tcp4(FIN | ACK, seq=5000, ack=77), tcp4(FIN | ACK, seq=0xffffffff, ack=77),
                   tcp4(PSH | ACK, seq=0xfffffff0, ack=(ck() + 1) & 0xffffffff, payload=b'xyz' * 20), tcp4(PSH | ACK, seq=9, ack=(ck() + 1) & 0xffffffff, payload=b'zz')]
        for f in singles: yield base, [f]
        for a in singles[:6] + [tcp4(SYN, seq=1)]:
            for b in singles[:9]:
                yield base, [a, b]
        yield base, [bad(0), bad(0), bad(0), good()]
        yield base, [good(), tcp4(PSH | ACK, seq=5018, ack=12345, payload=HTTP_REQ), tcp4(PSH | ACK, seq=6000, ack=1, payload=b'q')]
    if pid in ('C02', 'C03', 'C04'):
        s4 = {'self': ME4 + ',' + ME6}
        yield s4, [e4(R.icmp(8, 0, b'\0\1\0\2x'), 1, dst='10.0.0.99')]
        yield s4, [e4(R.icmp(8, 0, b'\0\1\0\2x'), 1)]
        yield s4, [R.eth('ff:ff:ff:ff:ff:ff', R.PEER, 0x0806, R.arp(1, R.PEER, PEER4, '00:00:00:00:00:00', '10.0.0.99'))]
        yield {'self': ME6}, [R.eth('ff:ff:ff:ff:ff:ff', R.PEER, 0x0806, R.arp(1, R.PEER, PEER4, '00:00:00:00:00:00', ME4))]
        yield s4, [icmp6(128, 0, b'\0\1\0\2x', dst='2001:db8::99')]
        yield s4, [R.eth('33:33:00:00:00:01', R.PEER, 0x86dd, R.ip6(PEER6, 'ff02::1', 58, b'')[0:0]) + icmp6(128, 0, b'\0\1\0\2x', dst='ff02::1')[14:]]
        yield s4, [icmp6(135, 0, b'\0\0\0\0' + socket.inet_pton(socket.AF_INET6, '2001:db8::99') + b'\x01\x01' + R.mac(R.PEER))]
        yield s4, [tcp4(SYN)[:14 + 16] + socket.inet_aton('10.0.0.99') + tcp4(SYN)[14 + 20:]]
        yield {'deny': PEER4}, [e4(R.icmp(8, 0, b'\0\1\0\2x'), 1)]
        yield {'deny': PEER4}, [tcp4(SYN)]
        yield {'deny': PEER6}, [icmp6(128, 0, b'\0\1\0\2x')]
        yield base, [R.eth('02:00:00:00:00:77', R.PEER, 0x0800, R.ip4(PEER4, ME4, 1, R.icmp(8, 0, b'\0\1\0\2x')))]
        yield base, [R.eth(R.MAC, R.PEER, 0x0805, R.ip4(PEER4, ME4, 1, R.icmp(8, 0, b'\0\1\0\2x')))]
        yield base, [e4(R.icmp(8, 0, b'\0\1\0\2x'), 47)]
        yield base, [e4(R.udp(0, 3478, bytes.fromhex('000100002112a442') + b'\x11' * 12), 17)]
        yield base, [e6(R.udp(40000, 3478, bytes.fromhex('000100002112a442') + b'\x11' * 12), 17)]
        yield base, [e4(R.udp(40000, 80, HTTP_REQ), 17)]
        # replies leave from the identity that was asked even when it differs from the IP destination (ND), and go to the
        # Ethernet source even when the ARP sender hardware address differs
        yield {'self': ME6}, [R.eth('33:33:ff:00:00:01', R.PEER, 0x86dd, b'') + icmp6(135, 0, b'\0\0\0\0' + socket.inet_pton(socket.AF_INET6, ME6) + b'\x01\x01' + R.mac(R.PEER), dst='ff02::1:ff00:1')[14:]]
        yield base, [icmp6(135, 0, b'\0\0\0\0' + socket.inet_pton(socket.AF_INET6, '2001:db8::5') + b'\x01\x01' + R.mac(R.PEER))]
        yield base, [R.eth('ff:ff:ff:ff:ff:ff', R.PEER, 0x0806, R.arp(1, '02:00:00:00:00:99', PEER4, '00:00:00:00:00:00', ME4))]
        yield {'self': ME4}, [e4(R.icmp(8, 0, b'\0\1\0\2x'), 1, dst='224.0.0.1')]
        yield {'self': ME4}, [e4(R.tcp(40000, 80, 1, 0, SYN), 6, dst='224.0.0.1')]
        # IPv4 options in the request: the reply carries none and is sized accordingly
        for l4, pr in ((R.icmp(8, 0, b'\0\1\0\2abcdefg'), 1), (R.tcp(40000, 80, 7, 0, SYN), 6), (R.udp(40000, 80, HTTP_REQ), 17)):
            h = R.ip4(PEER4, ME4, pr, b'', ihl=6, total=24 + len(l4))
            h = h[:20] + b'\x01\x01\x01\x00'
            h = h[:10] + b'\0\0' + h[12:]
            h = h[:10] + struct.pack('!H', R.csum(h)) + h[12:]
            yield base, [R.eth(R.MAC, R.PEER, 0x0800, h + l4)]
    if pid in ('C12',):
        tid = b'\x21\x12\xa4\x42' + b'\x07' * 12
        for typ in (0x0011, 0x0101, 0x0111):
            yield base, [e4(R.udp(40000, 3478, struct.pack('!HH', typ, 0) + tid), 17)], {'silence': True}
            yield base, [e6(R.udp(40000, 3478, struct.pack('!HH', typ, 0) + tid), 17)], {'silence': True}
        for fl in (0x8000, 0x8180, 0x8400, 0x8100):
            yield base, [e4(R.udp(40000, 53, struct.pack('!HHHHHH', 0x1234, fl, 1, 0, 0, 0) + b'\x01a\0' + b'\0\1\0\1'), 17)], {'silence': True}
            yield base, [e4(R.udp(40000, 53, struct.pack('!HHHHHH', 0x1234, fl, 1, 1, 0, 0) + b'\x01a\0' + b'\0\1\0\1' + b'\x01a\0' + b'\0\1\0\1\0\0\xa8\xc0\0\4\x0a\0\0\1'), 17)], {'silence': True}

# ----------------------------------------------------------------------------- application layer (C13, C15, C18)
def _app_payload(fr):
    g = decode(fr)
    return None if g is None else g.get('payload')

def app_scenarios(pid):
    """(request payload, transport, checker) - checker(reply payload or None) -> list of disagreements; only clear-cut
    cases of the statements"""
    out = []
    def silent(what):
        return lambda r: ([] if r is None else ['%s was answered (%s..)' % (what, r[:24].hex())])
    if pid == 'C18':
        def banner(r):
            return [] if r == b'SSH-2.0-1\r\n' else ['identification not answered with exactly SSH-2.0-1 CR LF: %s' % (r.hex() if r else None)]
        for ident in (b'SSH-2.0-x\r\n', b'SSH-1.99-OpenSSH_8.9 some comment\r\n', b'SSH-2.0-\r\n', b'SSH-2.0-a_b.c-d\r\n', b'SSH-2.0-soft\rware\r\n', b'SSH-2.0-soft\r\r\n',
                      b'SSH-2.0-soft comment\rwith cr\r\n'):
            out.append((ident, 'tcp', banner))
        for ident in (b'SSH-2.0-x', b'SSH-2.0-x\r', b'SSH-2.0-x y\r', b'SSH-2.0x\r\n', b'SSH-2.a-x\r\n', b'SSH-2.0-x\rz'):
            out.append((ident, 'tcp', silent('an unterminated or malformed identification')))
    if pid == 'C13':
        def is401(r):
            if r is None: return ['a complete request was not answered']
            bad = []
            if not r.startswith(b'HTTP/1.1 401'): bad.append('status line is not HTTP/1.1 401')
            if b'WWW-Authenticate:' not in r: bad.append('no WWW-Authenticate header')
            k = r.find(b'\n\n'); k2 = r.find(b'\r\n\r\n')
            body = r[k + 2:] if k >= 0 and (k2 < 0 or k < k2) else (r[k2 + 4:] if k2 >= 0 else None)
            import re as _re
            mo = _re.search(rb'Content-Length: *(\d+)', r)
            if body is None or not mo or int(mo.group(1)) != len(body): bad.append('Content-Length %s != %s body bytes' % (mo.group(1) if mo else None, None if body is None else len(body)))
            return bad
        for v in (b'GET', b'PUT', b'POST', b'HEAD', b'DELETE', b'CONNECT', b'OPTIONS', b'TRACE', b'PATCH'):
            for eol in (b'\r\n', b'\n'):
                out.append((v + b' /a\xff HTTP/1.1' + eol + b'Host: x' + eol + b'X-Y: z: w' + eol + eol, 'udp', is401))
                out.append((v + b' / HTTP/1.0' + eol + eol, 'tcp', is401))
        for bad_req in (b'BREW / HTTP/1.0\r\n\r\n', b'GETX / HTTP/1.0\r\n\r\n', b'GET / HTTP/1.0\r\n', b'GET / HTTP/1.0\r\nHost: x\r\n', b'GET / HTTX/1.0\r\n\r\n',
                        b'GET / HTTP/1.0 \r\n\r\n', b'GET / HTTP/1.0\r\nNoColonHere\r\n\r\n', b'GET /\r\n\r\n', b'GET / HTTP/a.0\r\n\r\n'):
            out.append((bad_req, 'udp', silent('an incomplete or malformed request')))
            out.append((bad_req, 'tcp', silent('an incomplete or malformed request')))
    if pid == 'C15':
        def stun_ok(tid, src_ip4, sport):
            def chk(r):
                want_attr = struct.pack('!HHBBH', 1, 8, 0, 1, sport) + socket.inet_aton(src_ip4)
                want = struct.pack('!HH', 0x0101, len(want_attr)) + tid + want_attr
                return [] if r == want else ['binding success response differs: expected %s, got %s' % (want.hex(), r.hex() if r else None)]
            return chk
        for tid in (b'\x21\x12\xa4\x42' + b'\x01' * 12, b'\x00' * 16, b'\xff' * 16):
            for sport in (40000, 65535, 1):
                out.append((struct.pack('!HH', 1, 0) + tid, ('udp', sport), stun_ok(tid, PEER4, sport)))
        for typ in (0x0011, 0x0101, 0x0111, 0x0002, 0x0003):
            out.append((struct.pack('!HH', typ, 0) + b'\x21\x12\xa4\x42' + b'\x01' * 12, ('udp', 40000), silent('a STUN message that is not a binding request')))
    return out

def app_search(pid, repo, d, cookie_of):
    n = 0
    for payload, tr, chk in app_scenarios(pid):
        n += 1
        sport = 40000
        if isinstance(tr, tuple): tr, sport = tr
        d.reset()
        if tr == 'udp':
            fr = e4(R.udp(sport, 3478 if pid == 'C15' else 8080, payload), 17)
        else:
            ck = cookie_of(PEER4, ME4, 41000 + n, 2222)
            fr = e4(R.tcp(41000 + n, 2222, 100, (ck + 1) & 0xffffffff, PSH | ACK, payload), 6)
        r = d.frame(fr)
        if r[0] == 'panic':
            return {'frames_hex': [fr.hex()], 'cfg': {}, 'disagreements': ['panic: ' + str(r[1])[:200]], 'reply_hex': None, 'scenarios_tried': n}
        rp = _app_payload(r[1]) if r[0] == 'reply' else None
        if rp is not None and len(rp) == 0: rp = None     # a bare ACK carries no application answer
        bad = chk(rp)
        if bad:
            return {'frames_hex': [fr.hex()], 'cfg': {}, 'disagreements': bad[:3], 'reply_hex': r[1].hex() if r[0] == 'reply' else None, 'scenarios_tried': n,
                    'request': payload.decode('latin1'), 'found_by': 'bounded search on the hook binary against clear-cut cases of the statement (tools/witness.py)'}
    return None

def search(pid, repo, budget_s=25.0):
    """first disagreement between the statements' model and the hook binary for property pid, or None"""
    try:
        R.build(repo)
    except R.BuildError:
        return None
    d = R.Driver(repo); t0 = time.time(); n = 0
    try:
        d.cfg(mac=R.MAC)
        cache = {}
        def cookie_of(s, t, sp, dp):
            k = (s, t, sp, dp)
            if k not in cache: cache[k] = d.cookie(s, t, sp, dp)
            return cache[k]
        if pid in ('C13', 'C15', 'C18'):
            return app_search(pid, repo, d, cookie_of)
        cur = None
        for sc in scenarios(pid, cookie_of):
            cfg, frames = sc[0], sc[1]; opt = sc[2] if len(sc) > 2 else {}
            if time.time() - t0 > budget_s: break
            if cfg != cur:
                d.cfg(mac=R.MAC, self=cfg.get('self', 'none'), deny=cfg.get('deny', 'none')); cur = cfg
            d.reset()
            m = Model(cookie_of, set(cfg['self'].split(',')) if cfg.get('self') else None, set(cfg['deny'].split(',')) if cfg.get('deny') else None)
            valid_flows = 0
            for i, fr in enumerate(frames):
                n += 1
                exp = m.expect(fr)
                if opt.get('silence') and i == len(frames) - 1: exp = None
                r = d.frame(fr)
                if r[0] == 'panic':
                    return {'frames_hex': [f.hex() for f in frames[:i + 1]], 'cfg': cfg, 'expected': 'no abort', 'got': 'panic: ' + str(r[1])[:200], 'scenarios_tried': n}
                got = r[1] if r[0] == 'reply' else None
                bad = compare(fr, exp, got)
                ts = d.tablesize()
                if pid in ('C09', 'C07', 'C08') and ts != len(m.valid):
                    bad.append('connection table holds %d entries, %d flows presented a valid cookie' % (ts, len(m.valid)))
                if bad:
                    return {'frames_hex': [f.hex() for f in frames[:i + 1]], 'cfg': cfg, 'disagreements': bad[:4],
                            'reply_hex': got.hex() if got else None, 'scenarios_tried': n,
                            'found_by': 'bounded search on the hook binary against the reference model of tools/witness.py (written from the statements)'}
        return None
    finally:
        d.close()

def selfcheck(repo):
    out = {}
    for pid in ('C02', 'C03', 'C04', 'C05', 'C06', 'C07', 'C08', 'C09', 'C12', 'C13', 'C15', 'C18'):
        out[pid] = search(pid, repo, budget_s=60.0)
    return out

if __name__ == '__main__':
    repo = sys.argv[1] if len(sys.argv) > 1 else '/repo'
    res = selfcheck(repo) if len(sys.argv) < 3 else {sys.argv[2]: search(sys.argv[2], repo, 60.0)}
    for k, v in res.items():
        print(k, 'no disagreement' if v is None else json.dumps(v)[:700])
